(* An independent FLAC stream decoder and strict validator, written from RFC 9639 (not from
   the writer).  It is the "independent, standards-conforming decoder" of properties C01/C02.
   It supports exactly the subset a fixed-blocksize encoder may emit plus the escapes needed to
   reject everything else; any violated clause makes it return None.
   Executable: the checks run the extracted version on the implementation's bytes. *)
From FV Require Import Model.Base Model.Crc Model.Rice Model.Predict.
Local Open Scope N_scope.

(* bit reader over a byte list *)
Record rd := mkRd { r_bytes : list N; r_off : N; r_cnt : N }.   (* r_off in 0..7; r_cnt = whole bytes consumed *)
Definition rd_of (b : list N) : rd := mkRd b 0 0.
Definition rd_aligned (r : rd) : bool := r_off r =? 0.

Definition read_bit (r : rd) : option (bool * rd) :=
  match r_bytes r with
  | [] => None
  | b :: t =>
      let bit := N.testbit b (7 - r_off r) in
      if r_off r =? 7 then Some (bit, mkRd t 0 (r_cnt r + 1))
      else Some (bit, mkRd (b :: t) (r_off r + 1) (r_cnt r))
  end.

Fixpoint read_bits (n : nat) (acc : N) (r : rd) : option (N * rd) :=
  match n with
  | O => Some (acc, r)
  | S k => match read_bit r with
           | None => None
           | Some (b, r') => read_bits k (2 * acc + (if b then 1 else 0)) r'
           end
  end.
Definition rbits (n : N) (r : rd) : option (N * rd) := read_bits (N.to_nat n) 0 r.

Definition to_signed (n v : N) : Z :=
  if (n =? 0) then 0%Z
  else if N.testbit v (n - 1) then (Z.of_N v - 2 ^ Z.of_N n)%Z else Z.of_N v.
Definition rsigned (n : N) (r : rd) : option (Z * rd) :=
  match rbits n r with None => None | Some (v, r') => Some (to_signed n v, r') end.

(* unary: number of 0 bits before the terminating 1.  Structural recursion on the byte list. *)
Definition find_one (b off : N) : option N :=
  find (fun p => (off <=? p) && N.testbit b (7 - p)) [0; 1; 2; 3; 4; 5; 6; 7].
Fixpoint read_unary_bytes (bytes : list N) (off acc cnt : N) : option (N * rd) :=
  match bytes with
  | [] => None
  | b :: t =>
      match find_one b off with
      | Some p => Some (acc + (p - off), if p =? 7 then mkRd t 0 (cnt + 1) else mkRd (b :: t) (p + 1) cnt)
      | None => read_unary_bytes t 0 (acc + (8 - off)) (cnt + 1)
      end
  end.
Definition runary (r : rd) : option (N * rd) := read_unary_bytes (r_bytes r) (r_off r) 0 (r_cnt r).

(* repeat a reader k times *)
Fixpoint rmany {A} (k : nat) (f : rd -> option (A * rd)) (r : rd) : option (list A * rd) :=
  match k with
  | O => Some ([], r)
  | S k' => match f r with
            | None => None
            | Some (x, r1) => match rmany k' f r1 with
                              | None => None
                              | Some (xs, r2) => Some (x :: xs, r2)
                              end
            end
  end.

Notation "'olet' p <- e ; k" := (match e with Some p => k | None => None end)
  (at level 200, p pattern, e at level 100, k at level 200).

(* ---- STREAMINFO ---- *)
Record sinfo := mkSinfo {
  i_min_block : N; i_max_block : N; i_min_frame : N; i_max_frame : N;
  i_rate : N; i_channels : N; i_bps : N; i_total : N; i_md5 : list N
}.

Definition read_streaminfo (r : rd) : option (sinfo * rd) :=
  olet (minb, r) <- rbits 16 r; olet (maxb, r) <- rbits 16 r;
  olet (minf, r) <- rbits 24 r; olet (maxf, r) <- rbits 24 r;
  olet (rate, r) <- rbits 20 r; olet (ch, r) <- rbits 3 r; olet (bps, r) <- rbits 5 r;
  olet (total, r) <- rbits 36 r; olet (md5, r) <- rmany 16 (rbits 8) r;
  Some (mkSinfo minb maxb minf maxf rate (ch + 1) (bps + 1) total md5, r).

(* metadata blocks: STREAMINFO first (length 34); others skipped; returns after the last one *)
Fixpoint read_other_meta (fuel : nat) (r : rd) : option rd :=
  match fuel with
  | O => None
  | S f =>
      olet (last, r) <- rbits 1 r; olet (ty, r) <- rbits 7 r; olet (len, r) <- rbits 24 r;
      if (ty =? 0) || (ty =? 127) then None     (* a second STREAMINFO / the forbidden type *)
      else
        olet (_, r) <- rmany (N.to_nat len) (rbits 8) r;
        if last =? 1 then Some r else read_other_meta f r
  end.

Definition read_magic_and_meta (r : rd) : option (sinfo * rd) :=
  olet (m, r) <- rbits 32 r;
  if negb (m =? 1716281667) then None else          (* "fLaC" *)
  olet (last, r) <- rbits 1 r; olet (ty, r) <- rbits 7 r; olet (len, r) <- rbits 24 r;
  if negb ((ty =? 0) && (len =? 34)) then None else
  olet (si, r) <- read_streaminfo r;
  if last =? 1 then Some (si, r)
  else olet r <- read_other_meta (length (r_bytes r)) r; Some (si, r).

(* ---- coded number (RFC 9639 9.1.5), canonical (shortest) form only ---- *)
Definition read_coded_number (r : rd) : option (N * rd) :=
  olet (b0, r) <- rbits 8 r;
  if b0 <? 128 then Some (b0, r)
  else if b0 <? 192 then None
  else
    let '(k, lead) :=
      if b0 <? 224 then (1, b0 - 192) else if b0 <? 240 then (2, b0 - 224)
      else if b0 <? 248 then (3, b0 - 240) else if b0 <? 252 then (4, b0 - 248)
      else if b0 <? 254 then (5, b0 - 252) else if b0 =? 254 then (6, 0) else (0, 0) in
    if k =? 0 then None else
    olet (conts, r) <- rmany (N.to_nat k) (rbits 8) r;
    if negb (forallb (fun c => (128 <=? c) && (c <? 192)) conts) then None else
    let v := fold_left (fun a c => a * 64 + (c - 128)) conts lead in
    (* canonical: the value must need this many bytes *)
    let minv := if k =? 1 then 128 else 2 ^ (5 * k + 1) in
    if v <? minv then None else Some (v, r).

(* ---- frame header ---- *)
Record fheader := mkFH { fh_block : N; fh_chcode : N; fh_number : N; fh_rate : N; fh_bps : N }.

Definition block_of_code (c : N) (r : rd) : option (N * rd) :=
  if c =? 0 then None
  else if c =? 1 then Some (192, r)
  else if c <=? 5 then Some (576 * 2 ^ (c - 2), r)
  else if c =? 6 then olet (v, r) <- rbits 8 r; Some (v + 1, r)
  else if c =? 7 then olet (v, r) <- rbits 16 r; if v =? 65535 then None else Some (v + 1, r)
  else Some (256 * 2 ^ (c - 8), r).

Definition rate_of_code (c : N) (si_rate : N) (r : rd) : option (N * rd) :=
  if c =? 0 then Some (si_rate, r)
  else if c =? 1 then Some (88200, r) else if c =? 2 then Some (176400, r)
  else if c =? 3 then Some (192000, r) else if c =? 4 then Some (8000, r)
  else if c =? 5 then Some (16000, r) else if c =? 6 then Some (22050, r)
  else if c =? 7 then Some (24000, r) else if c =? 8 then Some (32000, r)
  else if c =? 9 then Some (44100, r) else if c =? 10 then Some (48000, r)
  else if c =? 11 then Some (96000, r)
  else if c =? 12 then olet (v, r) <- rbits 8 r; Some (v * 1000, r)
  else if c =? 13 then olet (v, r) <- rbits 16 r; Some (v, r)
  else if c =? 14 then olet (v, r) <- rbits 16 r; Some (v * 10, r)
  else None.

Definition bps_of_code (c : N) (si_bps : N) : option N :=
  if c =? 0 then Some si_bps else if c =? 1 then Some 8 else if c =? 2 then Some 12
  else if c =? 4 then Some 16 else if c =? 5 then Some 20 else if c =? 6 then Some 24
  else if c =? 7 then Some 32 else None.

(* start: the bytes from the beginning of the frame (for the CRCs) *)
Definition read_frame_header (si : sinfo) (start : list N) (r : rd) : option (fheader * rd) :=
  let c0 := r_cnt r in
  olet (sync, r) <- rbits 14 r; if negb (sync =? 16382) then None else
  olet (res0, r) <- rbits 1 r; if negb (res0 =? 0) then None else
  olet (strategy, r) <- rbits 1 r; if negb (strategy =? 0) then None else   (* fixed blocksize only *)
  olet (bsc, r) <- rbits 4 r; olet (src, r) <- rbits 4 r; olet (chc, r) <- rbits 4 r;
  olet (ssc, r) <- rbits 3 r; olet (res1, r) <- rbits 1 r; if negb (res1 =? 0) then None else
  if 10 <? chc then None else
  olet (num, r) <- read_coded_number r;
  olet (block, r) <- block_of_code bsc r;
  olet (rate, r) <- rate_of_code src (i_rate si) r;
  olet bps <- bps_of_code ssc (i_bps si);
  let hdr_len := r_cnt r - c0 in
  olet (c8, r) <- rbits 8 r;
  if negb (c8 =? crc8 (firstn (N.to_nat hdr_len) start)) then None else
  Some (mkFH block chc num rate bps, r).

(* ---- residual ---- *)
Definition read_rice_sample (k : N) (r : rd) : option (Z * rd) :=
  olet (q, r) <- runary r; olet (rem, r) <- rbits k r;
  let u := q * 2 ^ k + rem in
  if 2 ^ 32 <=? u then None else      (* residual must fit 32 bits (and -2^31 is not allowed) *)
  let v := unzigzag u in
  if (v <=? - 2 ^ 31)%Z then None else Some (v, r).

Fixpoint read_partitions (nparts : nat) (first : bool) (psize order : N) (r : rd) : option (list Z * rd) :=
  match nparts with
  | O => Some ([], r)
  | S k =>
      olet (p, r) <- rbits 4 r;
      if p =? 15 then None else                        (* no escape codes in emitted streams *)
      let cnt := if first then psize - order else psize in
      olet (xs, r) <- rmany (N.to_nat cnt) (read_rice_sample p) r;
      olet (ys, r) <- read_partitions k false psize order r;
      Some (xs ++ ys, r)
  end.

Definition read_residual (block order : N) (r : rd) : option (list Z * rd) :=
  olet (method, r) <- rbits 2 r; if negb (method =? 0) then None else
  olet (po, r) <- rbits 4 r;
  let nparts := 2 ^ po in
  if negb (block mod nparts =? 0) then None else
  let psize := block / nparts in
  if psize <? order then None else
  if (0 <? po) && (psize =? 0) then None else
  read_partitions (N.to_nat nparts) true psize order r.

(* ---- subframes ---- *)
Definition in_range (bps : N) (x : Z) : bool :=
  ((- 2 ^ (Z.of_N bps - 1) <=? x) && (x <? 2 ^ (Z.of_N bps - 1)))%Z.

Definition read_subframe (block bps : N) (r : rd) : option (list Z * rd) :=
  olet (z, r) <- rbits 1 r; if negb (z =? 0) then None else
  olet (ty, r) <- rbits 6 r;
  olet (wasted, r) <- rbits 1 r; if negb (wasted =? 0) then None else
  if ty =? 0 then
    olet (v, r) <- rsigned bps r; Some (repeat v (N.to_nat block), r)
  else if ty =? 1 then rmany (N.to_nat block) (rsigned bps) r
  else if (8 <=? ty) && (ty <=? 12) then
    let order := ty - 8 in
    if block <? order then None else
    olet (warm, r) <- rmany (N.to_nat order) (rsigned bps) r;
    olet (res, r) <- read_residual block order r;
    Some (warm ++ lpc_restore_from (fixed_coefs (N.to_nat order)) 0 (rev warm) res, r)
  else if 32 <=? ty then
    let order := ty - 31 in
    if block <? order then None else
    olet (warm, r) <- rmany (N.to_nat order) (rsigned bps) r;
    olet (precm1, r) <- rbits 4 r; if precm1 =? 15 then None else
    olet (shift, r) <- rsigned 5 r; if (shift <? 0)%Z then None else
    olet (coefs, r) <- rmany (N.to_nat order) (rsigned (precm1 + 1)) r;
    olet (res, r) <- read_residual block order r;
    Some (warm ++ lpc_restore_from coefs shift (rev warm) res, r)
  else None.

Fixpoint read_subframes (bpss : list N) (block : N) (r : rd) : option (list (list Z) * rd) :=
  match bpss with
  | [] => Some ([], r)
  | b :: t =>
      olet (x, r) <- read_subframe block b r;
      olet (xs, r) <- read_subframes t block r;
      Some (x :: xs, r)
  end.

Definition undo_stereo (chc : N) (subs : list (list Z)) : option (list (list Z)) :=
  if chc <=? 7 then Some subs
  else match subs with
       | [a; b] =>
           if chc =? 8 then Some [a; map (fun p => (fst p - snd p)%Z) (combine a b)]           (* left, side *)
           else if chc =? 9 then Some [map (fun p => (snd p + fst p)%Z) (combine a b); b]      (* side, right *)
           else
             let lr := map (fun p =>
                              let m := (2 * fst p + Z.modulo (snd p) 2)%Z in
                              (Z.shiftr (m + snd p) 1, Z.shiftr (m - snd p) 1)) (combine a b) in
             Some [map fst lr; map snd lr]
       | _ => None
       end.

(* one frame; `start` = bytes from the frame's first byte.  Returns channels, header, rest. *)
Definition read_frame (si : sinfo) (start : list N) : option (fheader * list (list Z) * list N) :=
  let r := rd_of start in
  olet (h, r) <- read_frame_header si start r;
  let nch := if fh_chcode h <=? 7 then fh_chcode h + 1 else 2 in
  let bpss :=
    if fh_chcode h <=? 7 then repeat (fh_bps h) (N.to_nat nch)
    else if fh_chcode h =? 9 then [fh_bps h + 1; fh_bps h] else [fh_bps h; fh_bps h + 1] in
  olet (subs, r) <- read_subframes bpss (fh_block h) r;
  (* zero padding to the byte boundary *)
  olet (padv, r) <- rbits ((8 - r_off r) mod 8) r; if negb (padv =? 0) then None else
  let body_len := r_cnt r in
  olet (c16, r) <- rbits 16 r;
  if negb (c16 =? crc16 (firstn (N.to_nat body_len) start)) then None else
  olet chans <- undo_stereo (fh_chcode h) subs;
  if negb (forallb (fun c => forallb (in_range (fh_bps h)) c) chans) then None else
  Some (h, chans, r_bytes r).

(* all frames; fuel = number of remaining bytes (each frame consumes at least one) *)
Fixpoint read_frames (fuel : nat) (si : sinfo) (idx : N) (bytes : list N)
  : option (list (fheader * list (list Z))) :=
  match fuel with
  | O => match bytes with [] => Some [] | _ => None end
  | S f =>
      match bytes with
      | [] => Some []
      | _ =>
          olet (hc, rest) <- read_frame si bytes;
          let '(h, chans) := hc in
          if negb (fh_number h =? idx) then None else
          olet more <- read_frames f si (idx + 1) rest;
          Some ((h, chans) :: more)
      end
  end.

Fixpoint interleave_fuel (fuel : nat) (chans : list (list Z)) : list Z :=
  match fuel with
  | O => []
  | S f =>
      if existsb (fun c => match c with [] => true | _ => false end) chans then []
      else map (hd 0%Z) chans ++ interleave_fuel f (map (@tl Z) chans)
  end.
Definition interleave (chans : list (list Z)) : list Z :=
  interleave_fuel (match chans with c :: _ => length c | [] => 0%nat end) chans.

(* the strict clauses that relate frames to STREAMINFO *)
Definition frames_consistent (si : sinfo) (fs : list (fheader * list (list Z))) : bool :=
  let n := length fs in
  forallb (fun ih =>
             let '(i, (h, chans)) := ih in
             let nch := if fh_chcode h <=? 7 then fh_chcode h + 1 else 2 in
             (nch =? i_channels si) && (fh_rate h =? i_rate si) && (fh_bps h =? i_bps si)
             && (fh_block h <=? i_max_block si)
             && (if Nat.ltb (S i) n then (fh_block h =? i_max_block si) && (i_min_block si <=? fh_block h)
                 else true)
             && (1 <=? fh_block h))
          (combine (seq 0 n) fs).

Definition info_ok (si : sinfo) : bool :=
  (16 <=? i_min_block si) && (i_min_block si <=? i_max_block si)
  && (1 <=? i_rate si) && (4 <=? i_bps si).

(* decode_stream: Some (info, interleaved samples) iff every clause holds *)
Definition decode_stream (bytes : list N) : option (sinfo * list Z) :=
  olet (si, r) <- read_magic_and_meta (rd_of bytes);
  if negb (info_ok si) then None else
  olet fs <- read_frames (length (r_bytes r)) si 0 (r_bytes r);
  if negb (frames_consistent si fs) then None else
  let samples := flat_map (fun hc => interleave (snd hc)) fs in
  let total := sumN (map (fun hc => fh_block (fst hc)) fs) in
  if negb ((i_total si =? 0) || (i_total si =? total)) then None else
  Some (si, samples).

Definition strict_ok (bytes : list N) : bool :=
  match decode_stream bytes with Some _ => true | None => false end.

(* frame byte lengths, for C04 *)
Fixpoint frame_lengths (fuel : nat) (si : sinfo) (bytes : list N) : option (list N) :=
  match fuel with
  | O => Some []
  | S f =>
      match bytes with
      | [] => Some []
      | _ =>
          olet (hc, rest) <- read_frame si bytes;
          olet more <- frame_lengths f si rest;
          Some (N.of_nat (length bytes - length rest) :: more)
      end
  end.
