(* Prediction residuals: fixed predictors by repeated differencing (coding.rs:186-201), quantised
   LPC (lpc.rs:324-408), and the stereo transform (coding.rs:472-530). *)
From FV Require Import Generated Model.Base.
Local Open Scope Z_scope.

(* one differencing pass with the SIMD carry: e'[t] = e[t] - e[t-1], e[-1] = 0, wrapping i32 *)
Fixpoint diff_from (prev : Z) (l : list Z) : list Z :=
  match l with
  | [] => []
  | x :: r => wrap32s (x - prev) :: diff_from x r
  end.
Definition diff1 (l : list Z) : list Z := diff_from 0 l.

Fixpoint fixed_errors (order : nat) (signal : list Z) : list Z :=
  match order with
  | O => signal
  | S k => diff1 (fixed_errors k signal)
  end.

(* ---- quantised LPC ---- *)

Record qparams := mkQ { q_coefs : list Z; q_shift : Z; q_precision : N }.
Definition q_order (q : qparams) : N := N.of_nat (length (q_coefs q)).

(* prediction for the sample following `hist` where hist is the history in REVERSE order
   (most recent sample first): sum_i c_i * x[t-1-i] *)
Fixpoint dot (cs hist : list Z) : Z :=
  match cs, hist with
  | c :: cs', x :: h' => c * x + dot cs' h'
  | _, _ => 0
  end.

(* residuals for t >= order; `hist` = reversed prefix already seen *)
Fixpoint lpc_errors_from (cs : list Z) (shift : Z) (hist rest : list Z) : list Z :=
  match rest with
  | [] => []
  | x :: r => (x - Z.shiftr (dot cs hist) shift) :: lpc_errors_from cs shift (x :: hist) r
  end.

Definition maxabs (l : list Z) : Z := fold_right (fun x m => Z.max (Z.abs x) m) 0 l.
Definition sumabs (l : list Z) : Z := fold_right (fun x m => Z.abs x + m) 0 l.

(* compute_error: exact residuals, zero for the warm-up; the 32-bit path is taken when
   max|x| * sum|c| < 2^31 - 1, else the 64-bit path whose result is narrowed with `as i32`.
   In the 32-bit path a residual that does not fit i32 traps (debug) or wraps (fakesimd lanes):
   modelled as Panic. *)
Definition lpc_errors (q : qparams) (signal : list Z) : Res (list Z) :=
  let order := length (q_coefs q) in
  let warm := firstn order signal in
  let exact := lpc_errors_from (q_coefs q) (q_shift q) (rev warm) (skipn order signal) in
  let z := repeat 0 (Nat.min order (length signal)) in
  if q_shift q <? 0 then Panic 359 else
  if maxabs signal * sumabs (q_coefs q) <? 2147483647 then
    if forallb (fun e => (-2147483648 <=? e) && (e <? 2147483648)) exact then Ok (z ++ exact)
    else Panic 402
  else Ok (z ++ map wrap32s exact).

(* the hypothesis of C01: every LPC residual is representable (so no wrap, no trap) *)
Definition lpc_fits (q : qparams) (signal : list Z) : bool :=
  let order := length (q_coefs q) in
  forallb (fun e => (-2147483648 <? e) && (e <? 2147483648))
          (lpc_errors_from (q_coefs q) (q_shift q) (rev (firstn order signal)) (skipn order signal)).

(* ---- decoder-side reconstruction (RFC 9639 9.2.6/9.2.7), used by Flac.v ---- *)

Fixpoint lpc_restore_from (cs : list Z) (shift : Z) (hist : list Z) (res : list Z) : list Z :=
  match res with
  | [] => []
  | e :: r =>
      let x := e + Z.shiftr (dot cs hist) shift in
      x :: lpc_restore_from cs shift (x :: hist) r
  end.

Definition fixed_coefs (order : nat) : list Z :=
  match order with
  | 0%nat => [] | 1%nat => [1] | 2%nat => [2; -1] | 3%nat => [3; -3; 1] | _ => [4; -6; 4; -1]
  end.

(* ---- stereo ---- *)
Definition mid (l r : Z) : Z := Z.shiftr (l + r) 1.
Definition side (l r : Z) : Z := l - r.
