(* The encoder: subframe/frame/stream decisions (coding.rs) over the integer model.
   The floating-point estimators and MD5 are Section variables (oracles): every definition and
   theorem is for ALL possible behaviours of those parts. *)
From FV Require Import Generated Model.Base Model.Sink Model.Crc Model.Codes Model.Rice
  Model.Predict Model.Component.
Local Open Scope N_scope.

(* the 17 configuration fields (config.rs) *)
Record config := mkCfg {
  cfg_block_size : N;
  cfg_multithread : bool;
  cfg_workers : option N;
  cfg_use_leftside : bool; cfg_use_rightside : bool; cfg_use_midside : bool;
  cfg_use_constant : bool; cfg_use_fixed : bool; cfg_use_lpc : bool;
  cfg_fixed_max_order : N;
  cfg_order_sel : option N;          (* None = BitCount, Some p = ApproxEnt { partitions: p } *)
  cfg_lpc_order : N; cfg_quant_precision : N;
  cfg_use_direct_mse : bool; cfg_mae_steps : N;
  cfg_window : option N;             (* None = Rectangle, Some bits = Tukey { alpha: f32::from_bits } *)
  cfg_max_parameter : N
}.

Definition MIN_PRED : N := c_MIN_BLOCK_SIZE_FOR_PREDICTION.   (* 64 *)

(* variant ids used to address the oracles: channel i -> i, mid -> 8, side -> 9 *)
Definition VAR_MID : N := 8.
Definition VAR_SIDE : N := 9.

Fixpoint is_constant (l : list Z) : bool :=
  match l with
  | a :: ((b :: _) as r) => Z.eqb a b && is_constant r
  | _ => true
  end.

Definition in_i32 (e : Z) : bool := ((-2147483648 <? e) && (e <? 2147483648))%Z.

Section Oracles.
  Variable ent : N -> N -> N -> N.        (* frame, variant, order -> entropy estimate *)
  Variable qlpc : N -> N -> qparams.      (* frame, variant -> quantised LPC parameters *)
  Variable md5 : list N -> list N.        (* message bytes -> 16 digest bytes *)

  (* first minimum by key *)
  Fixpoint min_by {A} (key : A -> N) (l : list A) (best : A) : A :=
    match l with
    | [] => best
    | x :: r => if key x <? key best then min_by key r x else min_by key r best
    end.
  Definition first_min {A} (key : A -> N) (l : list A) : option A :=
    match l with [] => None | x :: r => Some (min_by key r x) end.

  Definition residual_checked (errs : list Z) (warmup maxp : N) : Res residual :=
    if forallb in_i32 (skipn (N.to_nat warmup) errs) then encode_residual errs warmup maxp
    else Panic 135.

  Definition orders_upto (k : N) : list N := map N.of_nat (seq 0 (S (N.to_nat k))).

  (* fixed_lpc + select_order_and_encode_residual *)
  Definition fixed_candidate (cfg : config) (fi var : N) (signal : list Z) (bps baseline : N)
    : Res (option subframe) :=
    let maxo := N.min (cfg_fixed_max_order cfg) 4 in
    let cands := map (fun k => (k, fixed_errors (N.to_nat k) signal)) (orders_upto maxo) in
    match cfg_order_sel cfg with
    | None =>
        do scored <- mapM (fun ke =>
                             let '(k, e) := ke in
                             if forallb in_i32 (skipn (N.to_nat k) e) then
                               do pr <- find_prc e k (cfg_max_parameter cfg);
                               Ok (k, e, pr, bps * k + prc_bits pr)
                             else Panic 135) cands;
        match first_min (fun x => snd x) scored with
        | None => Ok None
        | Some (k, e, pr, bits) =>
            if bits <? baseline then
              Ok (Some (SFixed (firstn (N.to_nat k) signal) (encode_residual_with e k pr) bps))
            else Ok None
        end
    | Some parts =>
        if parts =? 0 then Panic 213 else
        let scored := map (fun ke => (fst ke, snd ke, ent fi var (fst ke) + bps * fst ke)) cands in
        match first_min (fun x => snd x) scored with
        | None => Ok None
        | Some (k, e, bits) =>
            if bits <? baseline then
              do r <- residual_checked e k (cfg_max_parameter cfg);
              Ok (Some (SFixed (firstn (N.to_nat k) signal) r bps))
            else Ok None
        end
    end.

  Definition lpc_candidate (cfg : config) (fi var : N) (signal : list Z) (bps : N) : Res subframe :=
    let q := qlpc fi var in
    do errs <- lpc_errors q signal;
    do r <- residual_checked errs (q_order q) (cfg_max_parameter cfg);
    Ok (SLpc (firstn (length (q_coefs q)) signal) q r bps).

  Definition encode_subframe (cfg : config) (fi var : N) (samples : list Z) (bps : N) : Res subframe :=
    if cfg_use_constant cfg && is_constant samples then
      match samples with
      | [] => Panic 395
      | x :: _ => Ok (SConstant (N.of_nat (length samples)) x bps)
      end
    else
      let n := N.of_nat (length samples) in
      let baseline := 8 + n * bps in
      let too_short := n <? MIN_PRED in
      do fixed0 <- (if negb too_short && cfg_use_fixed cfg
                   then (if 30 <=? bps then Panic 308 else fixed_candidate cfg fi var samples bps baseline)
                   else Ok None);
      let fixed := match fixed0 with
                   | Some x => if subframe_count_bits x <? baseline then Some x else None
                   | None => None
                   end in
      let baseline2 := match fixed with
                       | Some x => N.min baseline (subframe_count_bits x)
                       | None => baseline
                       end in
      do lpc <- (if negb too_short && cfg_use_lpc cfg then
                   do c <- lpc_candidate cfg fi var samples bps;
                   Ok (if subframe_count_bits c <? baseline2 then Some c else None)
                 else Ok None);
      match lpc, fixed with
      | Some c, _ => Ok c
      | None, Some x => Ok x
      | None, None => Ok (SVerbatim samples bps)
      end.

  (* per-channel sample lists of one block *)
  Fixpoint deinterleave_from (channels : nat) (ch : nat) (l : list Z) (fuel : nat) : list Z :=
    match fuel with
    | O => []
    | S f => match nth_error l ch with
             | Some x => x :: deinterleave_from channels ch (skipn channels l) f
             | None => []
             end
    end.
  Definition channel_samples (channels : N) (block : list Z) (ch : N) : list Z :=
    deinterleave_from (N.to_nat channels) (N.to_nat ch) block (length block).

  Definition mk_header (rate bps : N) (ch : chassign) (block : N) (number : N) : Res header :=
    do bc <- block_size_code (block mod 2 ^ 16);
    Ok (mkHeader false bc block ch (sample_size_tag (bps mod 256)) (sample_rate_code (rate mod 2 ^ 32)) number).

  (* encode_frame: independent coding, then the stereo alternatives for 2 channels *)
  Definition encode_frame (cfg : config) (rate channels bps : N) (fi : N) (number : N) (block : list Z)
    : Res frame :=
    let chs := map (fun c => channel_samples channels block c) (map N.of_nat (seq 0 (N.to_nat channels))) in
    let n := match chs with c :: _ => N.of_nat (length c) | [] => 0 end in
    do indep <- mapM (fun ic => encode_subframe cfg fi (fst ic) (snd ic) bps)
                     (combine (map N.of_nat (seq 0 (N.to_nat channels))) chs);
    if channels =? 2 then
      match chs, indep with
      | [l; r], [sl; sr] =>
          let m := map (fun lr => mid (fst lr) (snd lr)) (combine l r) in
          let s := map (fun lr => side (fst lr) (snd lr)) (combine l r) in
          do sm <- encode_subframe cfg fi VAR_MID m bps;
          do ss <- encode_subframe cfg fi VAR_SIDE s (bps + 1);
          let bl := subframe_count_bits sl in let br := subframe_count_bits sr in
          let bm := subframe_count_bits sm in let bs := subframe_count_bits ss in
          let best0 := (Indep 2, bl + br) in
          let best1 := if cfg_use_leftside cfg && (bl + bs <? snd best0) then (LeftSide, bl + bs) else best0 in
          let best2 := if cfg_use_rightside cfg && (br + bs <? snd best1) then (RightSide, br + bs) else best1 in
          let best3 := if cfg_use_midside cfg && (bm + bs <? snd best2) then (MidSide, bm + bs) else best2 in
          let subs := match fst best3 with
                      | Indep _ => [sl; sr] | LeftSide => [sl; ss] | RightSide => [ss; sr] | MidSide => [sm; ss]
                      end in
          do h <- mk_header rate bps (fst best3) n number;
          Ok (mkFrame h subs None)
      | _, _ => Panic 460
      end
    else
      do h <- mk_header rate bps (Indep channels) n number;
      Ok (mkFrame h indep None).

  Definition sample_ok_lim (lim : Z) (x : Z) : bool := ((- lim <=? x) && (x <=? lim - 1))%Z.
  Definition samples_ok (bps : N) (l : list Z) : bool :=
    let lim := (2 ^ (Z.of_N bps - 1))%Z in forallb (sample_ok_lim lim) l.

  (* encode_fixed_size_frame: argument checks, then encode_frame *)
  Definition encode_fixed_size_frame (cfg : config) (rate channels bps : N) (fi number : N) (block : list Z)
    : Res frame :=
    if 2 ^ 31 <=? number then Err E_RANGE
    else if negb (samples_ok bps block) then Err E_VERIFY
    else encode_frame cfg rate channels bps fi number block.

  (* ---- stream level ---- *)

  Definition update_info (i : streaminfo) (f : frame) : streaminfo :=
    let bs := (h_block (f_header f)) mod 2 ^ 16 in
    let fsz := (frame_count_bits f / 8) mod 2 ^ 32 in
    mkInfo (N.min bs (si_min_block i)) (N.max bs (si_max_block i))
           (N.min fsz (si_min_frame i)) (N.max fsz (si_max_frame i))
           (si_rate i) (si_channels i) (si_bps i) (si_total i + bs) (si_md5 i).

  Definition le_bytes (nbytes : N) (x : Z) : list N :=
    let u := Z.to_N (Z.modulo x (2 ^ 32)) in
    map (fun k => (u / 2 ^ (8 * N.of_nat k)) mod 256) (seq 0 (N.to_nat nbytes)).

  Definition md5_input (bps : N) (samples : list Z) : list N :=
    flat_map (le_bytes ((bps + 7) / 8)) samples.

  Fixpoint encode_blocks (cfg : config) (rate channels bps : N) (fi : N) (blocks : list (list Z))
    : Res (list frame) :=
    match blocks with
    | [] => Ok []
    | b :: r =>
        do f <- encode_fixed_size_frame cfg rate channels bps fi fi b;
        do fs <- encode_blocks cfg rate channels bps (fi + 1) r;
        Ok (f :: fs)
    end.

  Definition init_info (rate channels bps bs : N) : streaminfo :=
    mkInfo bs bs (2 ^ 32 - 1) 0 rate channels bps 0 (repeat 0 16%nat).

  (* encode_with_fixed_block_size, single-threaded, MemSource semantics (blocks of bs samples,
     the last one shorter; len_hint = number of inter-channel samples) *)
  Definition encode_stream (cfg : config) (rate channels bps bs : N) (samples : list Z) : Res stream :=
    let blocks := chunks (N.to_nat (bs * channels)) samples in
    do frames <- encode_blocks cfg rate channels bps 0 blocks;
    let i := fold_left update_info frames (init_info rate channels bps bs) in
    let i2 := mkInfo bs bs (si_min_frame i) (si_max_frame i) rate channels bps
                     (N.of_nat (length samples) / channels) (md5 (md5_input bps samples)) in
    Ok (mkStream i2 [] frames).

  Definition encode_stream_bytes (cfg : config) (rate channels bps bs : N) (samples : list Z) : Res (list N) :=
    do s <- encode_stream cfg rate channels bps bs samples; stream_bytes s.

End Oracles.
