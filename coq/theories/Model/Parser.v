(* The repo's nom-based parser (component/parser.rs) re-stated over the bit reader of Flac.v.
   It returns the component tree the code builds.  After the repairs of D8 no input makes it
   panic: every failure is a parse error (None here). *)
From FV Require Import Generated Model.Base Model.Crc Model.Codes Model.Rice Model.Predict
  Model.Component Model.Flac.
Local Open Scope N_scope.

Notation "'olet' p <- e ; k" := (match e with Some p => k | None => None end)
  (at level 200, p pattern, e at level 100, k at level 200).

(* nom's `bits` adapter: after a bit-level section the input continues at the next byte *)
Definition align_rd (r : rd) : rd :=
  if r_off r =? 0 then r
  else match r_bytes r with
       | [] => r
       | _ :: t => mkRd t 0 (r_cnt r + 1)
       end.

(* utf8_code: no validation of continuation bytes, no canonicity requirement *)
Definition p_utf8 (r : rd) : option (N * rd) :=
  olet (h, r) <- rbits 8 r;
  let '(k, acc) :=
    if h <? 128 then (0, h mod 128) else if h <? 224 then (1, h mod 32) else if h <? 240 then (2, h mod 16)
    else if h <? 248 then (3, h mod 8) else if h <? 252 then (4, h mod 4) else if h <? 254 then (5, h mod 2)
    else if h =? 254 then (6, 0) else (7, 0) in
  if k =? 7 then None else
  olet (tail, r) <- rmany (N.to_nat k) (rbits 8) r;
  Some (fold_left (fun a b => a * 64 + b mod 64) tail acc, r).

Definition p_block_size_code (tag : N) (r : rd) : option (code * N * rd) :=
  if tag =? 0 then None
  else if tag =? 1 then Some (mkCode 1 0 0, 192, r)
  else if tag <=? 5 then Some (mkCode tag 0 0, 576 * 2 ^ (tag - 2), r)
  else if tag =? 6 then olet (x, r) <- rbits 8 r; Some (mkCode 6 8 x, x + 1, r)
  else if tag =? 7 then olet (x, r) <- rbits 16 r; Some (mkCode 7 16 x, x + 1, r)
  else Some (mkCode tag 0 0, 256 * 2 ^ (tag - 8), r).

Definition p_sample_rate_code (tag : N) (r : rd) : option (code * rd) :=
  if tag =? 15 then None
  else if tag =? 12 then olet (x, r) <- rbits 8 r; Some (mkCode 12 8 x, r)
  else if (tag =? 13) || (tag =? 14) then olet (x, r) <- rbits 16 r; Some (mkCode tag 16 x, r)
  else Some (mkCode tag 0 0, r).

Definition chassign_of_tag (t : N) : option chassign :=
  if t <? 8 then Some (Indep (t + 1)) else if t =? 8 then Some LeftSide
  else if t =? 9 then Some RightSide else if t =? 10 then Some MidSide else None.

Definition bits_of_ss_tag (t : N) : option N :=
  if t =? 1 then Some 8 else if t =? 2 then Some 12 else if t =? 4 then Some 16
  else if t =? 5 then Some 20 else if t =? 6 then Some 24 else if t =? 7 then Some 32 else None.

(* frame_header(check_crc = true); start = bytes from the header's first byte *)
Definition p_frame_header (start : list N) (r : rd) : option (header * rd) :=
  let c0 := r_cnt r in
  olet (sync, r) <- rbits 15 r; if negb (sync =? 32764) then None else
  olet (blocking, r) <- rbits 1 r;
  olet (bst, r) <- rbits 4 r; olet (srt, r) <- rbits 4 r; olet (cht, r) <- rbits 4 r;
  olet (sst, r) <- rbits 3 r; olet (res, r) <- rbits 1 r; if negb (res =? 0) then None else
  olet ch <- chassign_of_tag cht;
  olet (num, r) <- p_utf8 r;
  let num := if blocking =? 0 then num mod 2 ^ 32 else num in
  olet (bc, r) <- p_block_size_code bst r;
  let '(bcode, bsize) := bc in
  olet (sc, r) <- p_sample_rate_code srt r;
  let hdr_len := r_cnt r - c0 in
  olet (c8, r) <- rbits 8 r;
  if negb (c8 =? crc8 (firstn (N.to_nat hdr_len) start)) then None else
  Some (mkHeader (negb (blocking =? 0)) bcode bsize ch sst sc num, r).

(* ---- residual ---- *)
Fixpoint p_partition_samples (cnt : nat) (p : N) (r : rd) : option (list N * list N * rd) :=
  match cnt with
  | O => Some ([], [], r)
  | S k =>
      olet (q, r) <- runary r; olet (rem, r) <- rbits p r;
      olet (qr, r) <- p_partition_samples k p r;
      let '(qs, rs) := qr in Some ((q mod 2 ^ 32) :: qs, rem :: rs, r)
  end.

Fixpoint p_partitions (nparts : nat) (first : bool) (pbits plen warm : N) (r : rd)
  : option (list N * list N * list N * rd) :=
  match nparts with
  | O => Some ([], [], [], r)
  | S k =>
      olet (p, r) <- rbits pbits r;
      let skip := if first then N.min warm plen else 0 in
      olet (qr, r) <- p_partition_samples (N.to_nat (plen - skip)) p r;
      let '(qs, rs) := qr in
      olet (rest, r) <- p_partitions k false pbits plen warm r;
      let '(ps, qs2, rs2) := rest in
      let z := repeat 0 (N.to_nat skip) in
      Some (p :: ps, z ++ qs ++ qs2, z ++ rs ++ rs2, r)
  end.

Definition p_residual (block warm : N) (r : rd) : option (residual * rd) :=
  olet (method, r) <- rbits 2 r;
  if 1 <? method then None else
  let pbits := if method =? 0 then 4 else 5 in
  olet (po, r) <- rbits 4 r;
  let nparts := 2 ^ po in
  let plen := block / nparts in
  if negb (plen * nparts =? block) || (plen <? warm) then None else
  olet (x, r) <- p_partitions (N.to_nat nparts) true pbits plen warm r;
  let '(ps, qs, rs) := x in
  Some (mkResidual po block warm ps qs rs, r).

(* ---- subframes: alt(constant, fixed_lpc, lpc, verbatim) ---- *)
Definition p_subframe (block bps : N) (r : rd) : option (subframe * rd) :=
  olet (tag, r) <- rbits 7 r;
  olet (wasted, r) <- rbits 1 r;
  if negb (wasted =? 0) then None else
  if tag =? 0 then
    olet (dc, r) <- rsigned bps r; Some (SConstant block dc bps, r)
  else if (8 <=? tag) && (tag <=? 12) then
    let order := tag - 8 in
    olet (warm, r) <- rmany (N.to_nat order) (rsigned bps) r;
    olet (res, r) <- p_residual block order r;
    Some (SFixed warm res bps, r)
  else if (32 <=? tag) && (tag <? 64) then
    let order := tag - 31 in
    olet (warm, r) <- rmany (N.to_nat order) (rsigned bps) r;
    if 24 <? order then None else
    olet (precm1, r) <- rbits 4 r;
    olet (shift, r) <- rsigned 5 r;
    olet (coefs, r) <- rmany (N.to_nat order) (rsigned (precm1 + 1)) r;
    if (shift <? 0)%Z || (15 <? precm1 + 1) then None else
    olet (res, r) <- p_residual block order r;
    Some (SLpc warm (mkQ coefs shift (precm1 + 1)) res bps, r)
  else if tag =? 1 then
    olet (xs, r) <- rmany (N.to_nat block) (rsigned bps) r; Some (SVerbatim xs bps, r)
  else None.

Fixpoint p_subframes (k : nat) (ch : N) (cha : chassign) (block bps : N) (r : rd)
  : option (list subframe * rd) :=
  match k with
  | O => Some ([], r)
  | S k' =>
      olet (s, r) <- p_subframe block (bps + bps_offset cha ch) r;
      olet (ss, r) <- p_subframes k' (ch + 1) cha block bps r;
      Some (s :: ss, r)
  end.

(* frame(stream_info, check_crc = true) *)
Definition p_frame (channels bps : N) (start : list N) : option (frame * list N) :=
  let r := rd_of start in
  olet (h, r) <- p_frame_header start r;
  if negb (chassign_channels (h_ch h) =? channels) then None else
  let hb := match bits_of_ss_tag (h_ss_tag h) with Some b => b | None => bps end in
  if negb (hb =? bps) || (c_MAX_BITS_PER_SAMPLE <? hb) then None else
  olet (subs, r) <- p_subframes (N.to_nat channels) 0 (h_ch h) (h_block h) hb r;
  let r := align_rd r in
  let body_len := r_cnt r in
  olet (c16, r) <- rbits 16 r;
  if negb (c16 =? crc16 (firstn (N.to_nat body_len) start)) then None else
  Some (mkFrame h subs None, r_bytes r).

Fixpoint p_frames (fuel : nat) (channels bps : N) (bytes : list N) : option (list frame) :=
  match fuel with
  | O => match bytes with [] => Some [] | _ => None end
  | S f =>
      match bytes with
      | [] => Some []
      | _ => olet (fr, rest) <- p_frame channels bps bytes;
             olet more <- p_frames f channels bps rest;
             Some (fr :: more)
      end
  end.

(* stream_info + StreamInfo::new / set_block_sizes / set_frame_sizes checks *)
Definition p_stream_info (r : rd) : option (streaminfo * rd) :=
  olet (si, r) <- read_streaminfo r;
  let bps := i_bps si in
  (* the placeholders StreamInfo::new leaves in a stream without frames are kept as read *)
  let blk_unset := (i_min_block si =? 65535) && (i_max_block si =? 0) in
  let frm_unset := (i_min_frame si =? 16777215) && (i_max_frame si =? 0) in
  if (96000 <? i_rate si) || (bps <? 8) || (25 <? bps) || negb ((bps mod 4 =? 0) || (bps mod 4 =? 1))
     || (negb blk_unset && ((32767 <? i_min_block si) || (32767 <? i_max_block si) || (i_max_block si <? i_min_block si)))
     || (negb frm_unset && (i_max_frame si <? i_min_frame si))
  then None
  else Some (mkInfo (i_min_block si) (i_max_block si)
                    (if frm_unset then 2 ^ 32 - 1 else i_min_frame si) (i_max_frame si)
                    (i_rate si) (i_channels si) bps (i_total si) (i_md5 si), r).

(* one metadata block: (is_last, tag, raw data bytes) *)
Definition p_metadata_block (r : rd) : option (bool * N * list N * rd) :=
  olet (last, r) <- rbits 1 r; olet (ty, r) <- rbits 7 r; olet (len, r) <- rbits 24 r;
  if ty =? 0 then
    let before := r_bytes r in
    olet (_, r2) <- p_stream_info r;
    Some (last =? 1, 0, firstn 34 before, r2)
  else if ty =? 127 then None
  else olet (data, r) <- rmany (N.to_nat len) (rbits 8) r; Some (last =? 1, ty, data, r).

Fixpoint p_more_meta (fuel : nat) (r : rd) : option (list (N * list N) * rd) :=
  match fuel with
  | O => None
  | S f =>
      olet (b, r) <- p_metadata_block r;
      let '(last, ty, data) := b in
      if last then Some ([(ty, data)], r)
      else olet (more, r) <- p_more_meta f r; Some ((ty, data) :: more, r)
  end.

Definition parse_stream (bytes : list N) : option stream :=
  let r := rd_of bytes in
  olet (m, r) <- rbits 32 r; if negb (m =? 1716281667) then None else
  olet (last, r) <- rbits 1 r; olet (ty, r) <- rbits 7 r; olet (len, r) <- rbits 24 r;
  if negb (ty =? 0) then None else
  olet (si, r) <- p_stream_info r;
  olet (metas, r) <- (if last =? 1 then Some ([], r) else p_more_meta (S (length (r_bytes r))) r);
  olet frames <- p_frames (length (r_bytes r)) (si_channels si) (si_bps si) (r_bytes r);
  Some (mkStream si metas frames).
