(* Common definitions for the flacenc-rs model.  No proofs here. *)
From Coq Require Export List ZArith NArith Bool Lia.
Export ListNotations.

(* Outcome of a modelled Rust function:
   Ok  a     : normal return / Ok(a)
   Err e     : Err(e) returned to the caller (e is a small error-kind code)
   Panic s   : the debug profile would trap at site s (overflow check, assert, unwrap,
               slice index, division by zero, unreachable!) *)
Inductive Res (A : Type) : Type :=
| Ok (a : A)
| Err (e : N)
| Panic (site : N).
Arguments Ok {A} a.
Arguments Err {A} e.
Arguments Panic {A} site.

Definition bind {A B} (r : Res A) (f : A -> Res B) : Res B :=
  match r with
  | Ok a => f a
  | Err e => Err e
  | Panic s => Panic s
  end.

Notation "'do' x <- r ; k" := (bind r (fun x => k))
  (at level 200, x pattern, r at level 100, k at level 200).

Definition is_ok {A} (r : Res A) : bool :=
  match r with Ok _ => true | _ => false end.
Definition is_panic {A} (r : Res A) : bool :=
  match r with Panic _ => true | _ => false end.

(* error kinds (small enum; messages are never compared) *)
Definition E_SINK   : N := 1.
Definition E_RANGE  : N := 2.
Definition E_VERIFY : N := 3.
Definition E_SOURCE : N := 4.
Definition E_CONFIG : N := 5.
Definition E_PARSE  : N := 6.

(* 2^n computed by shifting (fast when extracted); Proofs/SinkArith.v: P2 n = 2 ^ n *)
Definition P2 (n : N) : N := N.shiftl 1 n.
Definition ZP2 (n : Z) : Z := Z.shiftl 1 n.
(* x / 2^k and x mod 2^k by shifting/masking (Proofs/SinkArith.v: DIV2_eq, MOD2_eq) *)
Definition DIV2 (x k : N) : N := N.shiftr x k.
Definition MOD2 (x k : N) : N := N.land x (N.ones k).

(* machine wraps *)
Definition wrapu (w : N) (z : Z) : Z := Z.modulo z (Z.pow 2 (Z.of_N w)).
Definition wraps (w : N) (z : Z) : Z :=
  let m := Z.pow 2 (Z.of_N w) in
  let h := Z.pow 2 (Z.of_N w - 1) in
  Z.modulo (z + h) m - h.
(* i32 wrap with a fast path for values already in range (equal to wraps 32; Proofs/PredictP.v) *)
Definition wrap32s (z : Z) : Z :=
  if (Z.leb (-2147483648) z && Z.ltb z 2147483648)%bool then z
  else Z.modulo (z + 2147483648) 4294967296 - 2147483648.
Definition wrap32u (z : Z) : N := Z.to_N (wrapu 32 z).

Fixpoint mapM {A B} (f : A -> Res B) (l : list A) : Res (list B) :=
  match l with
  | [] => Ok []
  | x :: xs => do y <- f x; do ys <- mapM f xs; Ok (y :: ys)
  end.

Fixpoint foldM {A S} (f : S -> A -> Res S) (l : list A) (s : S) : Res S :=
  match l with
  | [] => Ok s
  | x :: xs => do s' <- f s x; foldM f xs s'
  end.

Fixpoint nth_opt {A} (l : list A) (n : nat) : option A :=
  match l, n with
  | [], _ => None
  | x :: _, O => Some x
  | _ :: xs, S n' => nth_opt xs n'
  end.

Definition sumN (l : list N) : N := fold_right N.add 0%N l.
Definition sumZ (l : list Z) : Z := fold_right Z.add 0%Z l.
