(* Thread-local reusable storage (lib.rs:92-116) and its clients, with the stale contents that a
   previous call on the same thread leaves behind made explicit.  Every client takes the scratch
   state it finds and returns the scratch state it leaves:
     - the Rice parameter finder (rice.rs:204-279): errors / ps / min_ps vectors;
     - the fixed-predictor error planes (coding.rs:182-201): five SimdVec<i32, 16>;
     - the window cache (lpc.rs:127-156, 726-739): a map keyed by (size, fingerprint).
   Vec::resize keeps the old prefix, SimdVec::resize keeps the old vectors, nothing is cleared
   unless the code clears it. *)
From FV Require Import Generated Model.Base Model.Rice Model.Predict.
Local Open Scope N_scope.

(* Vec::resize(n, d): keep the first n old elements, pad with d *)
Definition vresize {A} (n : nat) (d : A) (l : list A) : list A := firstn n l ++ repeat d (n - length l).
(* writing `new` over the first |new| elements of `old` *)
Definition overwrite_prefix {A} (new old : list A) : list A := new ++ skipn (length new) old.

(* ---------------- QLPC error buffer (coding.rs estimated_qlpc + lpc.rs compute_error) ---------------- *)
(* The thread-local Vec<i32> is resized to the block length (old contents kept), then compute_error writes its
   result over it: the fast path zero-fills the whole slice and accumulates, the 64-bit path assigns every element. *)
Definition qlpc_error_buffer (stale : list Z) (q : qparams) (signal : list Z) : Res (list Z) :=
  let buf := vresize (length signal) 0%Z stale in
  do e <- lpc_errors q signal;
  Ok (overwrite_prefix e buf).

(* ---------------- mid/side frame buffer (coding.rs try_stereo_coding + source.rs FrameBuf) ---------------- *)
(* FrameBuf { samples, size, filled_size }: channel ch lives at samples[ch*size .. ch*size + filled).  The thread-local
   stereo buffer is resized (Vec::resize keeps old contents; the channel count is samples.len() / old size), then
   fill_stereo_with_iter writes the (mid, side) pairs over the heads of the two halves and sets filled_size. *)
Record fbuf := mkFBuf { fbs_samples : list Z; fbs_size : nat; fbs_filled : nat }.
Definition fbs_channels (b : fbuf) : nat := length (fbs_samples b) / fbs_size b.
Definition fbs_resize (n : nat) (b : fbuf) : fbuf :=
  mkFBuf (vresize (n * fbs_channels b) 0%Z (fbs_samples b)) n (fbs_filled b).
Definition fbs_fill_stereo (pairs : list (Z * Z)) (b : fbuf) : fbuf :=
  let m := firstn (fbs_size b) (fbs_samples b) in
  let s := skipn (fbs_size b) (fbs_samples b) in
  let k := Nat.min (length pairs) (Nat.min (length m) (length s)) in       (* iter.take(size).zip(m.zip(s)) *)
  mkFBuf (overwrite_prefix (map fst (firstn k pairs)) m ++ overwrite_prefix (map snd (firstn k pairs)) s) (fbs_size b) k.
Definition fbs_channel (b : fbuf) (ch : nat) : list Z :=
  firstn (fbs_filled b) (skipn (ch * fbs_size b) (fbs_samples b)).

(* ---------------- Rice parameter finder ---------------- *)
Record finder := mkFinder { fd_errors : list N; fd_ps : list N; fd_min_ps : list N }.

(* the `while nparts > 1` loop; `ts` is tables[0..nparts] *)
Fixpoint sfind_loop (o : nat) (ts : list table) (maxp : N) (ps min_ps : list N) (min_bits min_order : N)
  : list N * list N * N * N :=
  match o with
  | O => (ps, min_ps, min_bits, min_order)
  | S o' =>
      let ts' := merge_pairs ts in
      let ps1 := vresize (length ts') 0 ps in                      (* self.ps.resize(nparts, 0) *)
      let '(pnew, bits) := eval_partitions ts' maxp in
      let ps2 := overwrite_prefix pnew ps1 in                      (* eval_partitions writes |ts'| entries *)
      if bits <? min_bits
      then sfind_loop o' ts' maxp ps2 ps2 bits (N.of_nat o')      (* min_ps.clear(); extend_from_slice(&ps) *)
      else sfind_loop o' ts' maxp ps2 min_ps min_bits min_order
  end.

Definition sfind (st : finder) (errs : list Z) (warmup maxp : N) : Res (finder * prc) :=
  let n := N.of_nat (length errs) in
  do order <- finest_partition_order n (N.max MIN_PART warmup);
  let nparts := 2 ^ order in
  let min_ps1 := vresize (N.to_nat nparts) 0 (fd_min_ps st) in     (* min_ps.resize(nparts, 0) *)
  let errors1 := vresize (length errs) 0 [] in                     (* errors.clear(); errors.resize(len, 0) *)
  let errors2 := overwrite_prefix (map zigzag errs) errors1 in     (* unaligned_map_and_update over the whole signal *)
  let part := n / nparts in
  let parts := chunks (N.to_nat part) (firstn (N.to_nat (part * nparts)) errors2) in
  let parts := match parts with
               | p0 :: r => skipn (N.to_nat warmup) p0 :: r
               | [] => []
               end in
  let ts := map table_from_errors parts in
  let '(pnew, bits) := eval_partitions ts maxp in
  let min_ps2 := overwrite_prefix pnew min_ps1 in
  let '(ps3, min_ps3, min_bits, min_order) := sfind_loop (N.to_nat order) ts maxp (fd_ps st) min_ps2 bits order in
  let min_ps4 := firstn (N.to_nat (2 ^ min_order)) min_ps3 in      (* min_ps.truncate(1 << min_order) *)
  Ok (mkFinder errors2 ps3 min_ps4, mkPrc min_order min_ps4 min_bits).

(* ---------------- fixed-predictor error planes ---------------- *)
Definition LANES : nat := 16.
Record simdvec := mkSV { sv_inner : list (list Z); sv_len : nat }.   (* every vector has 16 lanes *)

Definition zero_vec : list Z := repeat 0%Z LANES.
Definition nvec (len : nat) : nat := (len + LANES - 1) / LANES.

(* pack_into_simd_vec: clear, resize with zero vectors, copy the scalars *)
Fixpoint pack_fuel (fuel : nat) (l : list Z) : list (list Z) :=
  match fuel with
  | O => []
  | S f => match l with
           | [] => []
           | _ => (firstn LANES l ++ repeat 0%Z (LANES - length (firstn LANES l))) :: pack_fuel f (skipn LANES l)
           end
  end.
Definition sv_reset_from_slice (data : list Z) : simdvec := mkSV (pack_fuel (length data) data) (length data).
Definition sv_resize (new_len : nat) (value : list Z) (v : simdvec) : simdvec :=
  mkSV (vresize (nvec new_len) value (sv_inner v)) new_len.
Definition sv_as_ref (v : simdvec) : list Z := firstn (sv_len v) (concat (sv_inner v)).

(* x - rotate_right(x) with the carry lane: lane i gets x[i] - x[i-1], lane 0 gets x[0] - carry *)
Definition diff_vec (carry : Z) (x : list Z) : list Z * Z :=
  (diff_from carry x, last x carry).

(* for t in 0..simd_len(src): dst[t] = diff(src[t]); the vectors of dst beyond that keep what they held *)
Fixpoint diff_planes (carry : Z) (src dst : list (list Z)) : list (list Z) :=
  match src with
  | [] => dst
  | x :: src' =>
      let '(d, c) := diff_vec carry x in
      match dst with
      | [] => []                                  (* as_mut_simd()[t] out of bounds: excluded by resize *)
      | _ :: dst' => d :: diff_planes c src' dst'
      end
  end.

Definition next_plane (prev stale : simdvec) (len : nat) : simdvec :=
  let resized := sv_resize len zero_vec stale in
  mkSV (diff_planes 0%Z (sv_inner prev) (sv_inner resized)) len.

(* reset_fixed_lpc_errors(errors, signal): errors[0..=4] *)
Definition reset_planes (stale : list simdvec) (signal : list Z) : list simdvec :=
  let s k := nth k stale (mkSV [] 0) in
  let p0 := sv_reset_from_slice signal in
  let p1 := next_plane p0 (s 1%nat) (length signal) in
  let p2 := next_plane p1 (s 2%nat) (length signal) in
  let p3 := next_plane p2 (s 3%nat) (length signal) in
  let p4 := next_plane p3 (s 4%nat) (length signal) in
  [p0; p1; p2; p3; p4].

(* ---------------- window cache ---------------- *)
(* fingerprint_window: rectangle = 1 << 56; Tukey = (2 << 56) + alpha.to_bits() *)
Definition fingerprint (w : option N) : N :=
  match w with None => 2 ^ 56 | Some bits => 2 * 2 ^ 56 + bits end.

Section Cache.
  Variable V : Type.
  Variable compute : option N -> N -> V.            (* window_weights(window, size) *)
  Variable key : option N -> N -> N * N.            (* WindowKey::new(size, window) *)

  Definition cache := list ((N * N) * V).
  Definition key_eqb (a b : N * N) : bool := (fst a =? fst b) && (snd a =? snd b).
  Fixpoint lookup (k : N * N) (c : cache) : option V :=
    match c with
    | [] => None
    | (k', v) :: r => if key_eqb k k' then Some v else lookup k r
    end.
  Definition get_window (c : cache) (w : option N) (size : N) : cache * V :=
    let k := key w size in
    match lookup k c with
    | Some v => (c, v)
    | None => let v := compute w size in ((k, v) :: c, v)
    end.
  (* a thread's life: any sequence of lookups starting from the empty cache; the values returned *)
  Fixpoint run_cache (c : cache) (reqs : list (option N * N)) : list V :=
    match reqs with
    | [] => []
    | (w, size) :: r => let '(c', v) := get_window c w size in v :: run_cache c' r
    end.
End Cache.

Definition exact_key (w : option N) (size : N) : N * N := (size, fingerprint w).
