(* Rice coding: sign folding, cost tables, partition/parameter search (rice.rs) and residual
   construction (coding.rs:58-180).  The cost table is the saturating one (after fix D3). *)
From FV Require Import Generated Model.Base.
Local Open Scope N_scope.

Definition MAXP : N := c_RICE_MAX_RICE_PARAMETER.            (* 14 *)
Definition MAX_PORDER : N := c_RICE_MAX_PARTITION_ORDER.     (* 15 *)
Definition MIN_PART : N := c_RICE_MIN_PARTITION_SIZE.        (* 64 *)
Definition SAT : N := c_RICE_MAX_P_TO_BITS.                  (* 2^28 - 1 *)

(* encode_signbit: (|v| << 1) - (v < 0) in u32; i32::MIN is not representable (Panic in debug) *)
Definition zigzag (v : Z) : N :=
  if (v <? 0)%Z then Z.to_N (2 * (- v) - 1) else Z.to_N (2 * v).
Definition zigzag_res (v : Z) : Res N :=
  if (v <=? - 2 ^ 31)%Z || (2 ^ 31 <=? v)%Z then Panic 135 else Ok (zigzag v).
Definition unzigzag (u : N) : Z :=
  if N.odd u then (- (Z.of_N (u / 2) + 1))%Z else Z.of_N (u / 2).

(* ---- cost tables: 16 lanes, lane p = saturated bit count of the partition coded with parameter p *)

Definition lanes : list N := [0;1;2;3;4;5;6;7;8;9;10;11;12;13;14;15].

(* exact cost of coding the folded values es with parameter p, including the 4-bit parameter *)
Definition exact_cost (es : list N) (p : N) : N :=
  4 + N.of_nat (length es) * (p + 1) + sumN (map (fun e => DIV2 e p) es).

Definition sat (x : N) : N := N.min x SAT.

Definition table := list N.   (* 16 entries *)
Definition table_from_errors (es : list N) : table := map (fun p => sat (exact_cost es p)) lanes.
Definition table_merge (a b : table) : table :=
  map (fun ab => sat (fst ab + snd ab - 4)) (combine a b).

(* minimizer(max_p): least cost among parameters 0..=max_p, ties to the smaller parameter *)
Fixpoint minimizer_go (t : table) (p maxp : N) (best_p best_bits : N) : N * N :=
  match t with
  | [] => (best_p, best_bits)
  | x :: r =>
      if maxp <? p then (best_p, best_bits)
      else if x <? best_bits then minimizer_go r (p + 1) maxp p x
      else minimizer_go r (p + 1) maxp best_p best_bits
  end.
Definition minimizer (t : table) (maxp : N) : N * N :=
  match t with
  | [] => (0, 0)
  | x :: r => minimizer_go r 1 maxp 0 x
  end.

Definition eval_partitions (ts : list table) (maxp : N) : list N * N :=
  let pb := map (fun t => minimizer t maxp) ts in
  (map fst pb, sumN (map snd pb)).

Fixpoint merge_pairs (ts : list table) : list table :=
  match ts with
  | a :: b :: r => table_merge a b :: merge_pairs r
  | _ => []
  end.

(* finest_partition_order(size, min_part): Panic when size / min_part = 0 *)
Definition trailing_zeros_fuel := 16%nat.
Fixpoint tz (fuel : nat) (n : N) : N :=
  match fuel with
  | O => 0
  | S f => if (n =? 0) || N.odd n then 0 else 1 + tz f (n / 2)
  end.
Definition finest_partition_order (size min_part : N) : Res N :=
  if min_part =? 0 then Panic 123
  else
    let splits := size / min_part in
    if splits =? 0 then Panic 125
    else Ok (N.min MAX_PORDER (N.min (N.log2 splits) (tz 64 size))).

(* split l into chunks of k elements (the last chunk may be shorter; k > 0) *)
Fixpoint chunks_fuel {A} (fuel : nat) (k : nat) (l : list A) : list (list A) :=
  match fuel with
  | O => []
  | S f => match l with [] => [] | _ => firstn k l :: chunks_fuel f k (skipn k l) end
  end.
Definition chunks {A} (k : nat) (l : list A) : list (list A) := chunks_fuel (length l) k l.

Record prc := mkPrc { prc_order : N; prc_ps : list N; prc_bits : N }.

(* bottom-up search: `o` more merges to go; tables for order o' = current *)
Fixpoint search (o : nat) (ts : list table) (maxp : N) (best : prc) : prc :=
  match o with
  | O => best
  | S o' =>
      let ts' := merge_pairs ts in
      let '(ps, bits) := eval_partitions ts' maxp in
      let best' := if bits <? prc_bits best then mkPrc (N.of_nat o') ps bits else best in
      search o' ts' maxp best'
  end.

(* PrcParameterFinder::find: the folded errors of partition p exclude the warm-up samples *)
Definition find_prc (errs : list Z) (warmup maxp : N) : Res prc :=
  let n := N.of_nat (length errs) in
  do order <- finest_partition_order n (N.max MIN_PART warmup);
  let nparts := 2 ^ order in
  let part := n / nparts in
  let folded := map zigzag errs in
  let parts := chunks (N.to_nat part) (firstn (N.to_nat (part * nparts)) folded) in
  let parts := match parts with
               | p0 :: r => skipn (N.to_nat warmup) p0 :: r
               | [] => []
               end in
  let ts := map table_from_errors parts in
  let '(ps, bits) := eval_partitions ts maxp in
  Ok (search (N.to_nat order) ts maxp (mkPrc order ps bits)).

(* ---- the Residual component as built by encode_residual_with_prc_parameter ---- *)

Record residual := mkResidual {
  r_order : N;             (* partition order *)
  r_block : N;             (* block size *)
  r_warmup : N;
  r_params : list N;
  r_quot : list N;         (* zero for the warm-up samples *)
  r_rem : list N
}.

Definition quot_rem (p : N) (e : Z) : N * N :=
  let u := zigzag e in (DIV2 u p, MOD2 u p).

(* expand the per-partition parameters to one parameter per sample *)
Definition param_per_sample (params : list N) (part : nat) : list N :=
  flat_map (fun p => repeat p part) params.

Definition encode_residual_with (errs : list Z) (warmup : N) (pr : prc) : residual :=
  let n := length errs in
  let part := Nat.div n (Nat.pow 2 (N.to_nat (prc_order pr))) in
  let pps := param_per_sample (prc_ps pr) part in
  let qr := map (fun pe => quot_rem (fst pe) (snd pe)) (combine pps errs) in
  let w := N.to_nat warmup in
  let z := repeat 0 w in
  mkResidual (prc_order pr) (N.of_nat n) warmup (prc_ps pr)
             (z ++ skipn w (map fst qr)) (z ++ skipn w (map snd qr)).

Definition encode_residual (errs : list Z) (warmup maxp : N) : Res residual :=
  do pr <- find_prc errs warmup maxp;
  Ok (encode_residual_with errs warmup pr).

(* exact number of bits of the residual section for given order/parameters (the spec side) *)
Definition residual_bits (errs : list Z) (warmup : N) (order : N) (ps : list N) : N :=
  let n := length errs in
  let part := Nat.div n (Nat.pow 2 (N.to_nat order)) in
  let pps := param_per_sample ps part in
  let per := map (fun pe => DIV2 (zigzag (snd pe)) (fst pe) + 1 + fst pe) (combine pps errs) in
  6 + 4 * N.of_nat (length ps) + sumN (skipn (N.to_nat warmup) per).
