(* Frame-header code selection (datatype.rs:1084-1555) and the UTF-8-like number coding
   (bitrepr.rs:121-170).  A header code is (4-bit tag, number of extra bits, extra value). *)
From FV Require Import Model.Base.
Local Open Scope N_scope.

Record code := mkCode { c_tag : N; c_xbits : N; c_xval : N }.

(* BlockSizeSpec::from_size, for 1 <= n <= 65535 (n = 0 underflows `x - 1`: Panic) *)
Definition block_size_code (n : N) : Res code :=
  if n =? 0 then Panic 1257
  else if n =? 192 then Ok (mkCode 1 0 0)
  else if n =? 576 then Ok (mkCode 2 0 0)
  else if n =? 1152 then Ok (mkCode 3 0 0)
  else if n =? 2304 then Ok (mkCode 4 0 0)
  else if n =? 4608 then Ok (mkCode 5 0 0)
  else if n =? 256 then Ok (mkCode 8 0 0)
  else if n =? 512 then Ok (mkCode 9 0 0)
  else if n =? 1024 then Ok (mkCode 10 0 0)
  else if n =? 2048 then Ok (mkCode 11 0 0)
  else if n =? 4096 then Ok (mkCode 12 0 0)
  else if n =? 8192 then Ok (mkCode 13 0 0)
  else if n =? 16384 then Ok (mkCode 14 0 0)
  else if n =? 32768 then Ok (mkCode 15 0 0)
  else if n <=? 256 then Ok (mkCode 6 8 (n - 1))
  else Ok (mkCode 7 16 (n - 1)).

(* SampleRateSpec::from_freq(..).unwrap_or(Unspecified) as used by encode_frame_impl *)
Definition sample_rate_code (f : N) : code :=
  if f =? 88200 then mkCode 1 0 0
  else if f =? 176400 then mkCode 2 0 0
  else if f =? 192000 then mkCode 3 0 0
  else if f =? 8000 then mkCode 4 0 0
  else if f =? 16000 then mkCode 5 0 0
  else if f =? 22050 then mkCode 6 0 0
  else if f =? 24000 then mkCode 7 0 0
  else if f =? 32000 then mkCode 8 0 0
  else if f =? 44100 then mkCode 9 0 0
  else if f =? 48000 then mkCode 10 0 0
  else if f =? 96000 then mkCode 11 0 0
  else if (f mod 1000 =? 0) && (f / 1000 <=? 255) then mkCode 12 8 (f / 1000)
  else if (f mod 10 =? 0) && (f / 10 <=? 65535) then mkCode 14 16 (f / 10)
  else if f <=? 65535 then mkCode 13 16 f
  else mkCode 0 0 0.

(* SampleSizeSpec::from_bits(..).unwrap_or(Unspecified).into_tag() *)
Definition sample_size_tag (bits : N) : N :=
  if bits =? 8 then 1 else if bits =? 12 then 2 else if bits =? 16 then 4
  else if bits =? 20 then 5 else if bits =? 24 then 6 else if bits =? 32 then 7 else 0.

(* channel assignment *)
Inductive chassign := Indep (n : N) | LeftSide | RightSide | MidSide.
Definition chassign_tag (c : chassign) : Res N :=
  match c with
  | Indep n => if 8 <? n then Err E_RANGE else if n =? 0 then Panic 335 else Ok (n - 1)
  | LeftSide => Ok 8 | RightSide => Ok 9 | MidSide => Ok 10
  end.
Definition chassign_channels (c : chassign) : N := match c with Indep n => n | _ => 2 end.
Definition bps_offset (c : chassign) (ch : N) : N :=
  match c with
  | Indep _ => 0
  | LeftSide => if ch =? 1 then 1 else 0
  | RightSide => if ch =? 0 then 1 else 0
  | MidSide => if ch =? 1 then 1 else 0
  end.

(* ---- UTF-8-like coding of frame / sample numbers ---- *)

Definition code_bits (v : N) : N := N.size v.   (* 64 - leading_zeros *)

Definition utf8_head (trailing : N) : N :=
  (* UTF8_HEADS[trailing] for trailing in 0..6 *)
  256 - 2 ^ (7 - trailing).

Fixpoint utf8_trail (k : nat) (v : N) : list N :=
  (* k continuation bytes holding the low 6k bits of v, most significant group first *)
  match k with
  | O => []
  | S k' => (128 + (v / 2 ^ (6 * N.of_nat k')) mod 64) :: utf8_trail k' v
  end.

Definition utf8like (v : N) : Res (list N) :=
  let cb := code_bits v in
  if cb <=? 7 then Ok [v]
  else if 36 <? cb then Err E_RANGE
  else
    let trailing := (cb - 2) / 5 in
    let first_bits := 6 - trailing in
    let head := if trailing =? 6 then 254
                else utf8_head trailing + (v / 2 ^ (6 * trailing)) mod 2 ^ first_bits in
    Ok (head :: utf8_trail (N.to_nat trailing) v).

Definition utf8like_bytesize (v : N) : N :=
  let cb := code_bits v in
  if cb <=? 7 then 1 else 1 + (cb - 2) / 5.
