(* FLAC components (datatype.rs), their serialisation as sink-operation sequences and their
   reported bit counts (bitrepr.rs). *)
From FV Require Import Generated Model.Base Model.Sink Model.Crc Model.Codes Model.Rice Model.Predict.
Local Open Scope N_scope.

Inductive subframe :=
| SConstant (block : N) (dc : Z) (bps : N)
| SVerbatim (samples : list Z) (bps : N)
| SFixed (warmup : list Z) (res : residual) (bps : N)
| SLpc (warmup : list Z) (q : qparams) (res : residual) (bps : N).

Record header := mkHeader {
  h_variable : bool;
  h_bs : code;            (* block-size code *)
  h_block : N;            (* the block size the code stands for *)
  h_ch : chassign;
  h_ss_tag : N;           (* sample-size tag *)
  h_sr : code;            (* sample-rate code *)
  h_number : N            (* frame number (fixed blocking) or start sample (variable) *)
}.

Record frame := mkFrame {
  f_header : header;
  f_subframes : list subframe;
  f_precomputed : option (list N)     (* bytes, when precompute_bitstream() was called *)
}.

Record streaminfo := mkInfo {
  si_min_block : N; si_max_block : N; si_min_frame : N; si_max_frame : N;
  si_rate : N; si_channels : N; si_bps : N; si_total : N; si_md5 : list N
}.

Record stream := mkStream { s_info : streaminfo; s_meta : list (N * list N); s_frames : list frame }.

(* ---- operation sequences ---- *)

Fixpoint residual_part_ops (p : N) (qs rs : list N) : list op :=
  match qs, rs with
  | q :: qs', r :: rs' =>
      OZeros q :: OMsbs 32 (((N.lor r (2 ^ p)) * 2 ^ (32 - (p + 1))) mod 2 ^ 32) (p + 1)
        :: residual_part_ops p qs' rs'
  | _, _ => []
  end.

(* partitions: partition 0 skips the warm-up samples *)
Fixpoint residual_parts_ops (params : list N) (part : nat) (skip : nat) (qs rs : list N) : list op :=
  match params with
  | [] => []
  | p :: ps =>
      OLsbs 8 p 4 ::
        residual_part_ops p (skipn skip (firstn part qs)) (skipn skip (firstn part rs))
        ++ residual_parts_ops ps part 0 (skipn part qs) (skipn part rs)
  end.

Definition residual_ops (r : residual) : list op :=
  let part := N.to_nat (r_block r / 2 ^ r_order r) in
  OLsbs 32 (r_order r) 6 ::
    residual_parts_ops (r_params r) part (N.to_nat (r_warmup r)) (r_quot r) (r_rem r).

Definition twoc_ops (bps : N) (l : list Z) : list op := map (fun v => OTwoc v bps) l.

Definition subframe_ops (s : subframe) : list op :=
  match s with
  | SConstant _ dc bps => [OWrite 8 0; OTwoc dc bps]
  | SVerbatim samples bps => OWrite 8 2 :: twoc_ops bps samples
  | SFixed warm res bps =>
      OWrite 8 (16 + 2 * N.of_nat (length warm)) :: twoc_ops bps warm ++ residual_ops res
  | SLpc warm q res bps =>
      OWrite 8 (64 + 2 * (N.of_nat (length warm) - 1)) :: twoc_ops bps warm
        ++ [OLsbs 64 (q_precision q - 1) 4; OTwoc (q_shift q) 5]
        ++ twoc_ops (q_precision q) (q_coefs q) ++ residual_ops res
  end.

(* the header as written into the byte-backed scratch sink; Err when the number is too wide
   or the channel count exceeds 8 *)
Definition header_inner_ops (h : header) : Res (list op) :=
  do ctag <- chassign_tag (h_ch h);
  do num <- utf8like (h_number h);
  Ok ([OLsbs 16 (65528 + (if h_variable h then 1 else 0)) 16;
       OLsbs 8 (c_tag (h_bs h) * 16 + c_tag (h_sr h)) 8;
       OLsbs 64 ctag 4;
       OLsbs 8 (h_ss_tag h * 2) 4;
       OBytes num]
      ++ (if c_xbits (h_bs h) =? 0 then [] else [OLsbs 16 (c_xval (h_bs h)) (c_xbits (h_bs h))])
      ++ (if c_xbits (h_sr h) =? 0 then [] else [OLsbs 16 (c_xval (h_sr h)) (c_xbits (h_sr h))])).

Definition pack (k : kind) (ops : list op) : Res (list N) :=
  do s <- run k ops; Ok (export_bytes k s).

Definition header_bytes (h : header) : Res (list N) :=
  do ops <- header_inner_ops h; pack KU8 ops.

(* what FrameHeader::write sends to its destination sink *)
Definition header_ops (h : header) : Res (list op) :=
  do b <- header_bytes h; Ok [OBytes b; OWrite 8 (crc8 b)].

(* the frame body as written into the word-backed scratch sink *)
Definition frame_inner_ops (f : frame) : Res (list op) :=
  do ho <- header_ops (f_header f);
  Ok (ho ++ flat_map subframe_ops (f_subframes f) ++ [OAlign]).

Definition frame_body_bytes (f : frame) : Res (list N) :=
  do ops <- frame_inner_ops f; pack KU64 ops.

(* what Frame::write sends to the caller's sink *)
Definition frame_ops (f : frame) : Res (list op) :=
  match f_precomputed f with
  | Some bytes => Ok [OBytes bytes]
  | None => do b <- frame_body_bytes f; Ok [OBytes b; OWrite 16 (crc16 b)]
  end.

Definition frame_bytes (f : frame) : Res (list N) :=
  do ops <- frame_ops f; pack KU8 ops.

Definition precompute (f : frame) : Res frame :=
  match f_precomputed f with
  | Some _ => Ok f
  | None => do b <- frame_bytes f; Ok (mkFrame (f_header f) (f_subframes f) (Some b))
  end.

Definition streaminfo_ops (i : streaminfo) : list op :=
  [OWrite 16 (si_min_block i mod 2 ^ 16); OWrite 16 (si_max_block i mod 2 ^ 16);
   OLsbs 32 (si_min_frame i mod 2 ^ 32) 24; OLsbs 32 (si_max_frame i mod 2 ^ 32) 24;
   OLsbs 32 (si_rate i mod 2 ^ 32) 20;
   OLsbs 8 ((si_channels i - 1) mod 256) 3; OLsbs 8 ((si_bps i - 1) mod 256) 5;
   OLsbs 64 (si_total i) 36; OBytes (si_md5 i)].

Definition metadata_ops (is_last : bool) (tag : N) (data_bits : N) (data_ops : list op) : list op :=
  [OWrite 8 (tag + (if is_last then 128 else 0)); OLsbs 32 ((data_bits / 8) mod 2 ^ 32) 24] ++ data_ops.

Fixpoint meta_ops (ms : list (N * list N)) : list op :=
  match ms with
  | [] => []
  | (tag, data) :: r =>
      metadata_ops (match r with [] => true | _ => false end) tag (8 * N.of_nat (length data)) [OBytes data]
        ++ meta_ops r
  end.

Definition stream_ops (s : stream) : Res (list op) :=
  do fo <- mapM frame_ops (s_frames s);
  Ok ([OBytes [102; 76; 97; 67]]
      ++ metadata_ops (match s_meta s with [] => true | _ => false end) 0 272 (streaminfo_ops (s_info s))
      ++ meta_ops (s_meta s) ++ concat fo).

Definition stream_bytes (s : stream) : Res (list N) :=
  do ops <- stream_ops s; pack KU8 ops.

(* ---- reported bit counts (BitRepr::count_bits) ---- *)

Definition residual_count_bits (r : residual) : N :=
  let nparts := 2 ^ r_order r in
  let quotient_bits := sumN (r_quot r) + r_block r - r_warmup r in
  let remainder_bits := sumN (r_params r) * (r_block r / 2 ^ r_order r)
                        - r_warmup r * (hd 0 (r_params r)) in
  2 + 4 + nparts * 4 + quotient_bits + remainder_bits.

Definition subframe_count_bits (s : subframe) : N :=
  match s with
  | SConstant _ _ bps => 8 + bps
  | SVerbatim samples bps => 8 + N.of_nat (length samples) * bps
  | SFixed warm res bps => 8 + bps * N.of_nat (length warm) + residual_count_bits res
  | SLpc warm q res bps =>
      8 + bps * N.of_nat (length warm) + 4 + 5 + q_precision q * N.of_nat (length warm)
        + residual_count_bits res
  end.

Definition header_count_bits (h : header) : N :=
  40 + 8 * utf8like_bytesize (h_number h) + c_xbits (h_bs h) + c_xbits (h_sr h).

Definition frame_count_bits (f : frame) : N :=
  match f_precomputed f with
  | Some b => 8 * N.of_nat (length b)
  | None =>
      let body := sumN (map subframe_count_bits (f_subframes f)) in
      ((header_count_bits (f_header f) + body + 7) / 8) * 8 + 16
  end.

Definition stream_count_bits (s : stream) : N :=
  32 + (32 + 272) + sumN (map (fun m => 32 + 8 * N.of_nat (length (snd m))) (s_meta s))
     + sumN (map frame_count_bits (s_frames s)).

(* number of bits an operation sequence produces on an ideal sink *)
Definition ops_bits (ops : list op) : N := blen_i (ideal_run ops).
