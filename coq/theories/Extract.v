(* Extraction of the executable model to OCaml.  Only ExtrOcamlBasic's mappings are used
   (bool, option, unit, list, prod, sumbool, sumor); N, Z, positive, nat stay inductive. *)
From Coq Require Import Extraction ExtrOcamlBasic.
From FV Require Import Model.Base Model.Sink Model.Crc Model.Codes Model.Rice Model.Predict
  Model.Component Model.Encoder Model.Flac Model.FailSink Model.Source Model.Config Model.Parser Model.Par Model.Api Proofs.OpsLen.
Extraction Language OCaml.
Set Extraction KeepSingleton.
Separate Extraction
  Sink.run Sink.export_bytes Sink.storage Sink.user_run Sink.blen Sink.ideal_run
  Crc.crc8 Crc.crc16
  Codes.block_size_code Codes.sample_rate_code Codes.sample_size_tag Codes.utf8like Codes.utf8like_bytesize
  Rice.find_prc Rice.table_from_errors Rice.table_merge Rice.minimizer Rice.finest_partition_order
  Rice.encode_residual Rice.residual_bits Rice.zigzag
  Predict.fixed_errors Predict.lpc_errors Predict.lpc_fits
  OpsLen.ops_len Component.residual_count_bits Component.residual_ops Component.header_ops Component.header_count_bits Component.pack
  Source.deinterleave Source.le_bytes_to_i32s Source.i32s_to_le_bytes Source.le_bytes_of Source.fb_new Source.ctx_new
  Source.fill_le_bytes Source.fill_interleaved Source.ctx_fill_le_bytes Source.ctx_fill_interleaved Source.observable
  Config.verify Config.to_doc Config.from_doc Config.default_config Generated.c_FEATURE_EXPERIMENTAL
  Api.streaminfo_new Api.framebuf_with_size Api.api_fill_interleaved Api.api_fill_le_bytes Api.api_frame Api.api_stream
  Parser.parse_stream Par.init Par.step Par.final Par.result_of Par.seq_result Par.read_fails Par.enabled Par.nbuf
  FailSink.expand FailSink.write_failing Component.stream_ops
  Component.stream_bytes Component.frame_bytes Component.stream_count_bits Component.frame_count_bits
  Component.subframe_count_bits Component.subframe_ops Component.precompute
  Flac.decode_stream Flac.strict_ok Flac.frame_lengths Flac.read_magic_and_meta Flac.rd_of
  Encoder.encode_stream Encoder.encode_stream_bytes Encoder.encode_fixed_size_frame Encoder.encode_subframe.
