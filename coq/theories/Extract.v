(* Extraction of the executable model to OCaml.  Only ExtrOcamlBasic's mappings are used
   (bool, option, unit, list, prod, sumbool, sumor); N, Z, positive, nat stay inductive. *)
From Coq Require Import Extraction ExtrOcamlBasic.
From FV Require Import Model.Base Model.Sink.
Extraction Language OCaml.
Set Extraction KeepSingleton.
Separate Extraction
  Sink.run Sink.export_bytes Sink.storage Sink.user_run Sink.blen.
