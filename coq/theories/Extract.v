(* Extraction of the executable model to OCaml.  Only ExtrOcamlBasic's mappings are used
   (bool, option, unit, list, prod, sumbool, sumor); N, Z, positive, nat stay inductive. *)
From Coq Require Import Extraction ExtrOcamlBasic.
From FV Require Import Model.Base Model.Sink Model.Crc Model.Codes Model.Rice Model.Predict
  Model.Component Model.Encoder Model.Flac Model.FailSink Model.Source Model.Config Model.Parser Model.Par Model.Api Model.Ctor Model.Scratch Proofs.OpsLen.
Extraction Language OCaml.
Set Extraction KeepSingleton.
Separate Extraction
  Sink.run Sink.export_bytes Sink.storage Sink.user_run Sink.blen Sink.ideal_run
  Crc.crc8 Crc.crc16
  Codes.block_size_code Codes.sample_rate_code Codes.sample_size_tag Codes.utf8like Codes.utf8like_bytesize
  Rice.find_prc Rice.table_from_errors Rice.table_merge Rice.minimizer Rice.finest_partition_order
  Rice.encode_residual Rice.residual_bits Rice.zigzag
  Predict.fixed_errors Predict.lpc_errors Predict.lpc_fits
  OpsLen.ops_len Component.residual_count_bits Component.residual_ops Component.header_ops Component.header_count_bits Component.pack
  Source.deinterleave Source.le_bytes_to_i32s Source.i32s_to_le_bytes Source.le_bytes_of Source.fb_new Source.ctx_new
  Source.fill_le_bytes Source.fill_interleaved Source.ctx_fill_le_bytes Source.ctx_fill_interleaved Source.observable
  Config.verify Config.to_doc Config.from_doc Config.default_config Generated.c_FEATURE_EXPERIMENTAL
  Ctor.residual_new Ctor.qparams_new Ctor.constant_new Ctor.verbatim_new Ctor.fixed_new Ctor.lpc_new Ctor.header_new Ctor.frame_new
  Ctor.streaminfo_ctor Ctor.unknown_new Ctor.written Ctor.verify_residual Ctor.verify_qparams Ctor.verify_subframe Ctor.verify_header
  Ctor.verify_frame Ctor.verify_streaminfo Ctor.sub_block Ctor.sub_bps
  Parser.p_residual Parser.p_subframe Parser.p_frame_header Parser.p_frame Parser.p_stream_info Parser.bits_of_ss_tag
  Component.header_ops Component.frame_ops Component.streaminfo_ops Component.stream_bytes Component.residual_ops Component.subframe_ops
  Component.residual_count_bits Component.subframe_count_bits Component.header_count_bits Component.frame_count_bits
  Scratch.sfind Scratch.reset_planes Scratch.sv_reset_from_slice Scratch.run_cache Scratch.exact_key Scratch.fingerprint Scratch.qlpc_error_buffer
  Api.streaminfo_new Api.framebuf_with_size Api.api_fill_interleaved Api.api_fill_le_bytes Api.api_frame Api.api_stream
  Parser.parse_stream Par.init Par.step Par.final Par.result_of Par.seq_result Par.read_fails Par.enabled Par.nbuf
  FailSink.expand FailSink.write_failing Component.stream_ops
  Component.stream_bytes Component.frame_bytes Component.stream_count_bits Component.frame_count_bits
  Component.subframe_count_bits Component.subframe_ops Component.precompute
  Flac.decode_stream Flac.strict_ok Flac.frame_lengths Flac.read_magic_and_meta Flac.rd_of
  Encoder.encode_stream Encoder.encode_stream_bytes Encoder.encode_fixed_size_frame Encoder.encode_subframe.
