#!/bin/sh
# usage: [ROUND=3] tools/try_seed2.sh <property id> [more property ids to check...]
# Round-N (default 2) seeded change of /tmp/seedN-<id> (worktree /tmp/wtN-<id>): confirm in its scratch worktree (tests,
# demo on changed and original tree), copy to /verif/seeded/<id>-rN/, apply to /repo, run the checks, undo straight afterwards.
id=$1; shift
R=${ROUND:-2}
wt=/tmp/wt$R-$id; sd=/tmp/seed$R-$id; out=/verif/seeded/$id-r$R
mkdir -p $out
cp $sd/patch.diff $sd/meta.json $sd/seed_demo.rs $sd/demo_output.txt $out/ 2>/dev/null
echo "== confirm in worktree $wt"
( cd $wt && git diff --stat -- src | tail -1
  CARGO_TARGET_DIR=$wt/target cargo test --workspace --no-fail-fast --offline 2>&1 | grep -E "^test result" | head -3
  CARGO_TARGET_DIR=$wt/target cargo run --offline $DEMO_FEATURES --example seed_demo >/tmp/demo2-$id.changed 2>&1; echo "demo on changed tree: exit $?"
  git diff -- src > /tmp/demo2-$id.patch; git apply -R /tmp/demo2-$id.patch && CARGO_TARGET_DIR=$wt/target cargo run --offline $DEMO_FEATURES --example seed_demo >/tmp/demo2-$id.orig 2>&1; echo "demo on original tree: exit $?"; git apply /tmp/demo2-$id.patch
) 2>&1 | tee $out/confirm.txt
echo "== apply to /repo and run checks: $id $*"
git -C /repo apply $out/patch.diff || { echo "patch does not apply"; exit 2; }
: > $out/checks.txt
for p in $id "$@"; do (cd /verif && bin/check $p 2>&1 | grep -E "VIOLATION|tier=" | head -4) | tee -a $out/checks.txt; done
git -C /repo checkout -- .
git -C /repo status --short | head -3
