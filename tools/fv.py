#!/usr/bin/env python3
"""Orchestrator for the flacenc-rs Rocq verification checks.

bin/check <PID> [--tier quick|thorough] [--replay FILE]

Per run: (1) rebuild the harness from /repo's working tree (hooks on), (2) regenerate
Generated.v from the compiled crate + source scan, (3) build the property's Coq target and
collect Print Assumptions, (4) re-extract the model and build the OCaml driver, (5) run the
property's correspondence streams (implementation vs extracted model) and property oracles,
(6) classify against known_findings.json, (7) write evidence/<PID>.json.
"""
import fcntl, hashlib, json, os, re, subprocess, sys, time

VERIF = os.path.dirname(os.path.dirname(os.path.abspath(__file__)))
REPO = os.environ.get("VERIF_REPO", "/repo")
CACHE = os.path.join(VERIF, ".cache")
COQ = os.path.join(VERIF, "coq")
ML = os.path.join(CACHE, "ml")
GUARD = "flacenc_verif"
NPROC = os.cpu_count() or 8

ENV = dict(os.environ)
ENV.update({"CARGO_NET_OFFLINE": "true", "RUSTFLAGS": "--cfg " + GUARD})
ENV.pop("CARGO_TARGET_DIR", None)

FORBIDDEN = re.compile(r"\b(Admitted|admit|Axiom|Parameter|Conjecture|Unset Guard|bypass_check|Admit Obligations|Hypothesis|Variable)\b")


class CheckError(Exception):
    pass


def sh(cmd, cwd=None, env=None, timeout=None, check=True, stdin=None):
    p = subprocess.run(cmd, cwd=cwd, env=env or ENV, timeout=timeout, stdin=stdin,
                       stdout=subprocess.PIPE, stderr=subprocess.STDOUT, text=True,
                       shell=isinstance(cmd, str))
    if check and p.returncode != 0:
        raise CheckError("command failed (%d): %s\n%s" % (p.returncode, cmd, p.stdout[-4000:]))
    return p


class Lock:
    def __init__(self, name):
        os.makedirs(CACHE, exist_ok=True)
        self.path = os.path.join(CACHE, name + ".lock")

    def __enter__(self):
        self.f = open(self.path, "w")
        fcntl.flock(self.f, fcntl.LOCK_EX)

    def __exit__(self, *a):
        fcntl.flock(self.f, fcntl.LOCK_UN)
        self.f.close()


# ----------------------------------------------------------------------------------------
# builds

def target_dir(profile, fset):
    return os.path.join(CACHE, "target-%s-%s" % (profile, fset))


def build_harness(profile="debug", fset="fdefault"):
    """(Re)build the harness against /repo's current working tree.  Returns binary path."""
    hdir = os.path.join(VERIF, "harness")
    with Lock("cargo-%s-%s" % (profile, fset)):
        lock_src = os.path.join(REPO, "Cargo.lock")
        lock_dst = os.path.join(hdir, "Cargo.lock")
        if not os.path.exists(lock_dst):
            import shutil
            shutil.copy(lock_src, lock_dst)
        env = dict(ENV)
        env["CARGO_TARGET_DIR"] = target_dir(profile, fset)
        cmd = ["cargo", "build", "--offline", "--no-default-features", "--features", fset]
        if profile == "release":
            cmd.append("--release")
        p = sh(cmd, cwd=hdir, env=env, timeout=1500, check=False)
        if p.returncode != 0:
            raise CheckError("harness build failed (%s/%s):\n%s" % (profile, fset, p.stdout[-6000:]))
    return os.path.join(target_dir(profile, fset), profile, "vharness")


def coq_files():
    with open(os.path.join(COQ, "_CoqProject")) as f:
        return [l.strip() for l in f if l.strip().endswith(".v")]


def dep_closure(vfile):
    """Transitive closure of `From FV Require ... X.Y` imports of a .v file (paths rel. to COQ)."""
    seen, todo = [], [vfile]
    while todo:
        v = todo.pop()
        if v in seen:
            continue
        seen.append(v)
        path = os.path.join(COQ, v)
        if not os.path.exists(path):
            continue
        txt = strip_comments(open(path).read())
        for m in re.finditer(r"From FV Require (?:Import|Export)\s+((?:\w+(?:\.\w+)*\s*)+)\.(?:\s|$)", txt):
            for mod in m.group(1).split():
                todo.append("theories/" + mod.replace(".", "/") + ".v")
    return seen


def count_obligations(files):
    n = 0
    per = {}
    for v in files:
        path = os.path.join(COQ, v)
        if not os.path.exists(path):
            continue
        txt = strip_comments(open(path).read())
        c = len(re.findall(r"^\s*(?:Local\s+|Global\s+)?(?:Theorem|Lemma|Corollary|Example|Fact|Proposition)\s+\w+", txt, re.M))
        per[v] = c
        n += c
    return n, per


def strip_comments(txt):
    out, depth, i = [], 0, 0
    while i < len(txt):
        if txt.startswith("(*", i):
            depth += 1; i += 2
        elif txt.startswith("*)", i) and depth > 0:
            depth -= 1; i += 2
        else:
            if depth == 0:
                out.append(txt[i])
            i += 1
    return "".join(out)


def forbidden_scan():
    """Grep the whole development for axioms/admits/unsafe flags.  Section Variables are allowed
    only inside a Section (checked structurally)."""
    bad = []
    for v in coq_files():
        path = os.path.join(COQ, v)
        if not os.path.exists(path):
            continue
        txt = strip_comments(open(path).read())
        depth = 0
        for ln, line in enumerate(txt.split("\n"), 1):
            if re.match(r"\s*Section\s+\w+", line):
                depth += 1
            if re.match(r"\s*End\s+\w+", line) and depth > 0:
                depth -= 1
            for m in FORBIDDEN.finditer(line):
                w = m.group(1)
                if w in ("Variable", "Hypothesis") and depth > 0:
                    continue
                if w in ("Variable", "Hypothesis", "Parameter") and not re.match(r"\s*(Variable|Hypothesis|Parameter)s?\b", line):
                    continue
                bad.append("%s:%d: %s" % (v, ln, line.strip()))
    args = open(os.path.join(COQ, "_CoqProject")).read()
    for flag in ("-type-in-type", "-impredicative-set", "-vos", "-vok"):
        if flag in args:
            bad.append("_CoqProject: " + flag)
    return bad


def build_coq(target_vo, timeout=3000):
    """make the given .vo (relative to COQ).  Returns (ok, output)."""
    with Lock("coq"):
        if not os.path.exists(os.path.join(COQ, "Makefile")) or \
           os.path.getmtime(os.path.join(COQ, "Makefile")) < os.path.getmtime(os.path.join(COQ, "_CoqProject")):
            sh("coq_makefile -f _CoqProject -o Makefile", cwd=COQ)
        p = sh(["timeout", str(timeout), "make", "-j%d" % NPROC, target_vo], cwd=COQ, check=False, timeout=timeout + 60)
        return p.returncode == 0, p.stdout


def print_assumptions(props_v):
    """Compile-time output of Print Assumptions is only shown when the file is (re)compiled, so we
    re-run coqc on the Props file alone (cheap: it only contains `exact`)."""
    with Lock("coq"):
        p = sh(["timeout", "600", "coqc", "-Q", "theories", "FV", props_v], cwd=COQ, check=False)
    return p.returncode == 0, p.stdout


def build_driver():
    """Re-extract the model and build the OCaml driver if any .vo/.ml is newer than the binary."""
    with Lock("ml"):
        os.makedirs(ML, exist_ok=True)
        drv = os.path.join(ML, "driver")
        srcs = [os.path.join(COQ, v) for v in coq_files() if "/Model/" in v or v.endswith("Generated.v") or v.endswith("Extract.v")]
        srcs += [os.path.join(VERIF, "ocaml", f) for f in os.listdir(os.path.join(VERIF, "ocaml")) if f.endswith(".ml")]
        stamp = os.path.getmtime(drv) if os.path.exists(drv) else 0
        if all(os.path.getmtime(s) <= stamp for s in srcs if os.path.exists(s)):
            return drv
        for f in os.listdir(ML):
            if f.endswith((".ml", ".mli", ".cmi", ".cmx", ".o", ".cmo")):
                os.remove(os.path.join(ML, f))
        # Extract.v needs EVERY model file compiled against the current Generated.v (a property's own make only rebuilds the
        # closure of its Props file, so after a regenerated constant the other .vo files would be inconsistent)
        targets = sorted(set([v[:-2] + ".vo" for v in coq_files() if "/Model/" in v or v.endswith("Generated.v") or v.endswith("GenTables.v")]
                             + [v[:-2] + ".vo" for v in dep_closure("theories/Extract.v") if not v.endswith("Extract.v")]))
        with Lock("coq"):
            if not os.path.exists(os.path.join(COQ, "Makefile")) or \
               os.path.getmtime(os.path.join(COQ, "Makefile")) < os.path.getmtime(os.path.join(COQ, "_CoqProject")):
                sh("coq_makefile -f _CoqProject -o Makefile", cwd=COQ)
            sh(["timeout", "2400", "make", "-j%d" % NPROC] + targets, cwd=COQ, check=False, timeout=2500)
        sh(["timeout", "900", "coqc", "-Q", os.path.join(COQ, "theories"), "FV", os.path.join(COQ, "theories", "Extract.v")], cwd=ML)
        for f in os.listdir(os.path.join(VERIF, "ocaml")):
            if f.endswith(".ml"):
                import shutil
                shutil.copy(os.path.join(VERIF, "ocaml", f), ML)
        sh("ocamlfind ocamlopt -package str -linkpkg -O2 -w -a -o driver.tmp $(ocamldep -sort *.ml *.mli) && mv driver.tmp driver", cwd=ML, timeout=900)
        return drv


# ----------------------------------------------------------------------------------------
# running streams

def run_lines(binary, lines, timeout=1200, shards=NPROC, env=None, memlimit_kb=None, key_index=0):
    """Feed case lines to `<binary> run` (sharded over processes); returns output lines in order."""
    if not lines:
        return []
    shards = max(1, min(shards, len(lines)))
    chunks = [lines[i::shards] for i in range(shards)]
    procs = []
    for ch in chunks:
        cmd = binary if isinstance(binary, list) else [binary, "run"]
        pre = None
        if memlimit_kb:
            import resource
            def pre(m=memlimit_kb):
                resource.setrlimit(resource.RLIMIT_AS, (m * 1024, m * 1024))
        p = subprocess.Popen(cmd, stdin=subprocess.PIPE, stdout=subprocess.PIPE, stderr=subprocess.DEVNULL,
                             text=True, env=env or ENV, preexec_fn=pre)
        procs.append((p, ch))
    outs = []
    import threading
    results = [None] * len(procs)
    def work(i, p, ch):
        try:
            o, _ = p.communicate("\n".join(ch) + "\n", timeout=timeout)
            results[i] = o.split("\n")
        except subprocess.TimeoutExpired:
            p.kill()
            results[i] = None
    ths = [threading.Thread(target=work, args=(i, p, ch)) for i, (p, ch) in enumerate(procs)]
    for t in ths: t.start()
    for t in ths: t.join()
    byid = {}
    for (p, ch), res in zip(procs, results):
        res = [r for r in (res or []) if r.strip()]
        got = {}
        for r in res:
            got[(r.split(" ", key_index + 1) + [""] * (key_index + 1))[key_index]] = r
        for c in ch:
            cid = c.split(" ", 2)[1]
            byid[cid] = got.get(cid, cid + " no-output")
    return [byid[c.split(" ", 2)[1]] for c in lines]


def gen_cases(binary, stream, seed, n, env=None):
    p = sh([binary, "gen", stream, str(seed), str(n)], timeout=600, env=env)
    return [l for l in p.stdout.split("\n") if l.strip()]


def corpus_cases(stream):
    d = os.path.join(VERIF, "corpus")
    out = []
    if os.path.isdir(d):
        for f in sorted(os.listdir(d)):
            if f.endswith(".cases"):
                for l in open(os.path.join(d, f)):
                    l = l.strip()
                    if l and not l.startswith("#") and l.split(" ", 1)[0] == stream:
                        out.append(l)
    return out


# ----------------------------------------------------------------------------------------
# known findings / replay / evidence

_replay_n = 0


def known_findings():
    p = os.path.join(VERIF, "known_findings.json")
    if not os.path.exists(p):
        return {"known": [], "fixed": []}
    return json.load(open(p))


def write_replay(pid, seed, payload):
    d = os.path.join(VERIF, "replays")
    os.makedirs(d, exist_ok=True)
    global _replay_n
    _replay_n += 1
    path = os.path.join(d, "%s-%s-%d-%d.json" % (pid, seed, int(time.time() * 1000) % 100000000, _replay_n))
    json.dump(payload, open(path, "w"), indent=1)
    return path


def write_evidence(pid, ev):
    d = os.path.join(VERIF, "evidence")
    os.makedirs(d, exist_ok=True)
    json.dump(ev, open(os.path.join(d, pid + ".json"), "w"), indent=1)


def sha(s):
    return hashlib.sha1(s.encode()).hexdigest()[:12]
