#!/usr/bin/env python3
"""Writes MANIFEST.json from the property table (tools/props.py) and the texts below."""
import json, os, sys
sys.path.insert(0, os.path.dirname(os.path.abspath(__file__)))
import props

VERIF = os.path.dirname(os.path.dirname(os.path.abspath(__file__)))
TEXT = {
 "C11": ("Theorems C11_sink_refines_ideal / C11_user_sink_receives_ideal / C11_bits_view: for every finite sequence of well-formed operations both MemSink models succeed, keep the representation invariant (storage length, zero tail) and denote exactly the ideal MSB-first bit string; the default trait methods deliver the ideal bits to a user sink implementing only the required operations. Induction over the operation list with per-operation arithmetic lemmas; no bound on lengths. Model tied to bitsink.rs by the SINK correspondence stream (length, storage words, byte export; debug+release).",
         "Rocq proof: refinement of both sinks to an ideal bit string by induction over operations; model/implementation correspondence on operation sequences"),
 "C09": ("Theorems C09_subframe_le_verbatim / C09_frame_body_le_verbatim / C09_frame_bits_bound: whatever the (universally quantified) entropy and LPC estimators answer, every subframe returned by the encoder model costs at most its verbatim encoding, the stereo decision never exceeds left+right, and the frame size is at most header + verbatim body + padding + CRC. Tied to coding.rs by whole-stream byte correspondence (ENC) and by a frame-length oracle on the implementation's bytes parsed with the extracted RFC decoder.",
         "Rocq proof over the encoder decision model with estimator oracles; whole-stream correspondence; frame-size oracle on emitted bytes"),
 "C08": ("Theorems C08_residual / C08_subframe / C08_frame / C08_precompute / C08_either_sink / C08_frame_whole_bytes: count_bits of residuals (any order, parameters, quotients - no bound), of all four subframe kinds and of frames equals the number of bits the serialisation produces; frame bytes = count/8 through the word sink, byte export and byte sink (uses the C11 refinement); precompute preserves count and bytes. Tied by the CNT stream (direct residuals with quotient sums around 2^32, headers with 31/36-bit numbers, both sink types) and by count_bits on every ENC stream.",
         "Rocq proof: length bookkeeping of serialisation op sequences + sink refinement; correspondence on constructed components"),
 "C13": ("Theorems C13_rice_optimal / C13_table_merge_exact / C13_finest_order: for every residual, warm-up and maximum parameter, the order and parameters returned by the finder model minimise the exact coded size over every partition order of the search space and every admissible parameter vector whenever some candidate is below 2^28-1 bits, and the reported bit count is then exact; proved by induction over the bottom-up merge (tables are exactly min(cost, 2^28-1) and merge = table of the concatenation). Tied by the RICE stream (find + table operations) and a brute-force optimum computed independently on the implementation's answers.",
         "Rocq proof: optimality of the bottom-up partition search by induction, saturation algebra; unit correspondence + brute-force oracle"),
 "C01": ('Theorems C01_subframe_lossless / C01_frame_lossless (for every estimator, the subframe / frame the encoder returns MEANS the block it was made from; one named hypothesis lpc_fits on the LPC branch), C01_decoder_reads_subframe (the independent RFC 9639 decoder of Model/Flac.v, started at any bit position on the bits a verified subframe serialises to, returns exactly that meaning), C01_subframe_ops_are_these_bits, C01_bytes_carry_the_bits (the byte sink exports exactly those bits), C01_subframe_bytes_decode_to_input (end to end for one subframe) and the building blocks (zigzag, fixed predictors, mid/side). PARTIAL: frame framing (header fields, CRCs, padding), STREAMINFO and that encoder subframes pass verification are decided per run: the extracted independent decoder is run on every stream the implementation emits (ENC + DLV streams, debug and release) and must return exactly the input.',
         'Rocq proof of component-level losslessness and of the independent decoder reading the written bits; extracted decoder run on every emitted stream'),
 "C02": ("Theorems C02_block_size_codes / C02_sample_rate_codes / C02_number_roundtrip / C02_number_defined: every block length 1..=32767 and sample rate 1..=96000 (complete sweeps inside Coq over the implementation's own tables, regenerated each run) gets a non-reserved code whose RFC meaning is the value; the UTF-8-like number coding is RFC-decodable and canonical for every value below 2^36 (arithmetic proof, all seven length classes). Whole-stream clauses (sync, reserved bits, CRC-8/16, zero padding, subframe limits, frame numbering, STREAMINFO consistency, no trailing bytes) are decided per run by the extracted strict validator Flac.strict_ok on the implementation's bytes.",
         "Rocq proof: exhaustive vm_compute sweeps of finite code spaces lifted to universal statements + arithmetic proof for number coding; extracted strict validator on emitted bytes"),
 "C03": ("Theorems C03_streaminfo_true / C03_md5_split_independent: the STREAMINFO of the stream encoder model states rate, channels, width, total = samples/channels and md5 = md5(LE bytes of the byte-rounded width), for an arbitrary md5 function, and the digest input is independent of how the samples are split into blocks. Tied by ENC and DLV (integer vs byte fill, with/without length hint, 1..16 worker threads) with an oracle that recomputes count and MD5 from the raw input.",
         "Rocq proof over the stream model (MD5 as oracle) + delivery-variant correspondence + independent recomputation"),
 "C04": ("Theorem C04_bounds_exact: in every stream of the encoder model max_block = min_block = requested block size (hence >= 16 and <= every non-final frame), and min/max frame size are attained by and bound every frame's size field. Tied by ENC/DLV with an oracle recomputing the four bounds from the frames of the implementation's bytes (every tail length class incl. 1..15).",
         "Rocq proof of the accounting fold + oracle on emitted bytes"),
 "C12": ("Theorems C12_failing_sink / C12_expansion_preserves_bits: for every call index k and every well-formed operation sequence, writing through a sink that fails at its k-th call returns Err(Sink) exactly when k lies inside the call sequence (never Panic), the accepted calls are the first k calls, and their bits are a prefix of the full bitstream; the expansion of API operations into required-method calls preserves the bits. Tied by the FAIL stream (verdict, accepted-call digest, accepted bit count) on streams with all subframe kinds, precomputed and not.",
         "Rocq proof: prefix property of the ideal bit string under truncation of the call sequence; fault-injection correspondence for every k class"),
 "C14": ("Theorems C14_fill_equiv / C14_context_equiv / C14_bytes_roundtrip / C14_no_stale_data: for every buffer state, channel count, capacity, byte width 1..4 and block of in-range samples (negative extremes included) filling the frame buffer and the MD5/count context from packed little-endian bytes equals filling them from integers; the part of the buffer the encoder reads never depends on previous contents. Tied by the SRC stream (unit functions, and both delivery paths on identical data incl. oversized fills) and end-to-end by DLV.",
         "Rocq proof: sign-extension/byte algebra and buffer non-interference; paired-delivery correspondence"),
 "C07": ("Theorems C07_verify_exact / C07_verified_no_panic: the verification model (ranges and the delegation graph regenerated from the source on every run) accepts a configuration iff all 17 fields are in their documented ranges; a verified configuration never makes the subframe encoder panic on a valid block for any entropy-estimator behaviour and any LPC-estimator answer satisfying lpc_oracle_ok. PARTIAL for panics inside the float estimators. Tied by the CFG stream (boundary grid, independent Python oracle) and by encoding the probe corpus with boundary configurations (ENC, decoded back).",
         "Rocq proof: exactness of the verifier, totality (no Panic) of the encoder model under verified configurations; boundary-grid correspondence"),
 "C19": ("Theorems C19_roundtrip, C19_empty_document_is_default, C19_omit_*_section, C19_omit_scalars, C19_partitions_default, C19_verify_agrees over a document-level model of the serde schema (container defaults, internally tagged enums, per-field default of partitions, Option<NonZeroUsize>); defaults are the implementation's Default impls dumped into Generated.v each run. Tied by the CFG stream: toml::to_string / toml::from_str against the model on random configurations, random omissions at every level and injected faults.",
         "Rocq proof over a TOML document model of the schema; correspondence with toml::to_string/from_str"),
 "C15": ('Theorems C15_residual, C15_subframe (the parser model, started at ANY bit position on the bits a verified residual / subframe of any size denotes, returns the identical component and stops right after them), C15_*_ops_bits, C15_bytes_carry_the_bits, C15_ideal_bits (writer side: operations = bits = exported bytes, via C11), C15_number_parse. PARTIAL: composition over frame headers, CRCs, padding and the stream container is decided per run by the PARSE stream (implementation parser vs parser model on emitted streams of every rate / block-size code class and their mutants: parse, re-serialise to identical bytes, verify, decode) and the CTOR stream.',
         'Rocq proof of parser-after-writer identity for residuals and subframes at any bit offset; parser-model correspondence on emitted streams and mutants'),
 "C16": ("Theorems C16_crc16_detects_bursts / C16_crc8_detects_bursts / C16_crc_is_bitwise: for messages of ANY length, two messages whose difference is confined to a window of 16 (resp. 8) bits have different CRC-16 (CRC-8) remainders - linearity proved algebraically, the two register facts by complete sweeps inside Coq. The parser model has no panicking outcome; agreement of the implementation's verdict (ok/err/panic) with it, and non-acceptance of altered frames with different audio, are decided by the PARSE stream (random positions in quick, every bit position in thorough). PARTIAL for bursts that shift the CRC window.",
         "Rocq proof: CRC burst-detection theorems (algebra + exhaustive state sweeps); mutation enumeration against the parser with the parser model as reference"),
 "C05": ("Protocol model Model/Par.v (feeder, W workers, hashing thread, epilogue; fault plans) with theorems by complete schedule exploration of finite instances inside Coq (every schedule terminates, no deadlock, each frame exactly once and in order, digest input in order). PARTIAL w.r.t. all W / all schedules. Tie: (i) byte equality of multi-threaded output with single-threaded output and with the encoder model for 1..16 workers from configuration and environment override (DLV, PAR); (ii) trace validation: every event log recorded at the hook points under seeded schedule perturbation must be accepted by the extracted LTS and end in the implementation's outcome.",
         "Rocq LTS model with in-Coq exhaustive exploration of finite instances; trace validation of implementation event logs against the extracted LTS; byte-equality correspondence"),
 "C06": ("Same LTS with fault plans (read error at any read index, out-of-range blocks): finite-instance theorems that every schedule terminates without deadlock in the outcome of the single-threaded reference. PARTIAL w.r.t. all W / all fault positions. Tie: PAR stream with injected faults x workers x perturbed schedules: result kind equal to single-threaded, no panic, no hang (timeout), no thread alive after return (/proc/self/task), event log accepted by the extracted LTS.",
         "Rocq LTS model with fault plans explored exhaustively for finite instances; fault-injection runs with trace validation"),
 "C17": ("Theorems C17_streaminfo_new, C17_framebuf_with_size, C17_fill_interleaved, C17_fill_le_bytes_errors, C17_frame_entry, C17_stream_entry (both modes), C17_never_panics: each entry point's validation model accepts exactly the supported domain of the property text (arguments are unbounded naturals, so truncation wrap-arounds are covered) and has no panicking outcome. Tied by the API stream: boundary / wrap-around grid on the implementation (debug and release), verdict compared with the model and with an independent Python statement of the domain.",
         "Rocq proof: exactness of the validation model of every entry point; boundary-grid correspondence incl. hang/panic detection"),
 "C18": ("Theorems C18_total (no constructor has a panicking outcome, for all arguments), C18_*_verifies (what a constructor returns passes verification), C18_residual / C18_subframes / C18_verified_subframe_serialises (a constructed or verified residual / subframe serialises on either sink, without panic, to exactly count_bits bits - via C08 and C11). C18_residual_parses_back / C18_subframe_parses_back (the byte sink's export of a verified residual / subframe is read back by the parser model as the identical component). PARTIAL: frame/header/stream-info/metadata serialisation and parse-back are validated, not proved, by the CTOR stream: every constructor on consistent and inconsistent argument grids, implementation (debug+release) vs model on verdict, verify, count_bits, bits written, bytes and parse-back, plus the property itself as an oracle on the implementation's observations.",
         "Rocq proof: totality, verification and bit-exact serialisability of constructed components; boundary-grid correspondence and parse-back oracle"),
 "C20": ("Theorems C20_threading_fields_irrelevant (the configuration fields whose default depends on feature `par` do not influence the emitted bytes, for every input and estimator), C20_verify_feature_independent (acceptance of a configuration without experimental options does not depend on feature `experimental`). The encoder model has no feature parameter; that each build computes that one function is established by correspondence: the harness is built against /repo with the feature sets {}, default, decode, default+experimental; the same ENC cases run on all builds; outputs and estimator (hook) values are compared with the extracted model and with each other.",
         "Rocq proof of configuration-level feature independence; four feature builds run on the same cases against the extracted model and each other"),
 "C10": ("Theorems C10_rice_finder_ignores_stale_scratch (PrcParameterFinder::find with ANY stale scratch vectors returns the pure finder's answer), C10_fixed_planes_ignore_stale_scratch (reset_fixed_lpc_errors leaves the same planes, padding lanes included, whatever they held), C10_window_cache_exact (in every history of lookups the cache returns the freshly computed window, since the key separates all windows) and C10_colliding_key_leaks (any key identifying two requests is observable - the repaired defect D5). The encoder model itself has no state. Tied to the code by the HIST stream (call histories on one thread vs each call alone on a fresh thread vs the model, incl. Tukey parameters closer than 2^-16) and the SCR stream (hooks running the scratch clients on explicit stale contents; window_fingerprint swept over all 2^30 parameter bit patterns).",
         "Rocq proof of stale-scratch independence (Rice finder, fixed planes, window cache); history-vs-fresh-thread correspondence and full key-domain sweep"),
}
NOTE = ("Trusted: Coq 8.16.1 kernel, extraction with ExtrOcamlBasic only, OCaml driver, Rust harness, tools/*.py, "
        "and the hand-written model of the named source files, which is tied to /repo by differential testing "
        "(correspondence), not by proof. Print Assumptions of every theorem: closed under the global context.")


# commits of /repo that add guarded hooks (git log --grep "verif hooks"); the fix c9f11f9 moved one guarded line
HOOK_COMMITS = ["6c4e125", "2ca51a7", "f5b7dc7"]


def main():
    old = json.load(open(os.path.join(VERIF, "MANIFEST.json")))
    checks = []
    for pid in sorted(props.PROPS):
        if pid not in TEXT:
            continue
        text, tech = TEXT[pid]
        checks.append({
            "property_id": pid,
            "quick_cmd": "bin/check %s --tier quick" % pid,
            "thorough_cmd": "bin/check %s --tier thorough" % pid,
            "evidence_file": "evidence/%s.json" % pid,
            "replay_cmd_template": "bin/check %s --replay {path}" % pid,
            "engine": "rocq-model",
            "level_claimed": {"category": "proof", "text": text, "design_ref": "DESIGN.md section 4, " + pid},
            "level_note": NOTE,
            "technique": tech,
        })
    claimed = [c["property_id"] for c in checks]
    old["checks"] = checks
    for e in old.get("engines", []):
        e["serves_properties"] = claimed
    allp = [json.loads(l)["id"] for l in open(os.path.join(VERIF, "properties.jsonl"))]
    old["not_applicable"] = [{"property_id": p, "reason": "check under construction in this framework (model/theorem/correspondence not yet registered); not claimed yet"}
                             for p in allp if p not in claimed]
    old["hooks"]["source_commits"] = HOOK_COMMITS
    json.dump(old, open(os.path.join(VERIF, "MANIFEST.json"), "w"), indent=1)
    print("claimed:", claimed)


if __name__ == "__main__":
    main()
