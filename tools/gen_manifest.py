#!/usr/bin/env python3
"""Writes MANIFEST.json from the property table (tools/props.py) and the texts below."""
import json, os, sys
sys.path.insert(0, os.path.dirname(os.path.abspath(__file__)))
import props

VERIF = os.path.dirname(os.path.dirname(os.path.abspath(__file__)))
TEXT = {
 "C11": ("Theorems C11_sink_refines_ideal / C11_user_sink_receives_ideal / C11_bits_view: for every finite sequence of well-formed operations both MemSink models succeed, keep the representation invariant (storage length, zero tail) and denote exactly the ideal MSB-first bit string; the default trait methods deliver the ideal bits to a user sink implementing only the required operations. Induction over the operation list with per-operation arithmetic lemmas; no bound on lengths. Model tied to bitsink.rs by the SINK correspondence stream (length, storage words, byte export; debug+release).",
         "Rocq proof: refinement of both sinks to an ideal bit string by induction over operations; model/implementation correspondence on operation sequences"),
 "C09": ("Theorems C09_subframe_le_verbatim / C09_frame_body_le_verbatim / C09_frame_bits_bound: whatever the (universally quantified) entropy and LPC estimators answer, every subframe returned by the encoder model costs at most its verbatim encoding, the stereo decision never exceeds left+right, and the frame size is at most header + verbatim body + padding + CRC. Tied to coding.rs by whole-stream byte correspondence (ENC) and by a frame-length oracle on the implementation's bytes parsed with the extracted RFC decoder.",
         "Rocq proof over the encoder decision model with estimator oracles; whole-stream correspondence; frame-size oracle on emitted bytes"),
 "C08": ("Theorems C08_residual / C08_subframe / C08_frame / C08_precompute / C08_either_sink / C08_frame_whole_bytes: count_bits of residuals (any order, parameters, quotients - no bound), of all four subframe kinds and of frames equals the number of bits the serialisation produces; frame bytes = count/8 through the word sink, byte export and byte sink (uses the C11 refinement); precompute preserves count and bytes. Tied by the CNT stream (direct residuals with quotient sums around 2^32, headers with 31/36-bit numbers, both sink types) and by count_bits on every ENC stream.",
         "Rocq proof: length bookkeeping of serialisation op sequences + sink refinement; correspondence on constructed components"),
 "C13": ("Theorems C13_rice_optimal / C13_table_merge_exact / C13_finest_order: for every residual, warm-up and maximum parameter, the order and parameters returned by the finder model minimise the exact coded size over every partition order of the search space and every admissible parameter vector whenever some candidate is below 2^28-1 bits, and the reported bit count is then exact; proved by induction over the bottom-up merge (tables are exactly min(cost, 2^28-1) and merge = table of the concatenation). Tied by the RICE stream (find + table operations) and a brute-force optimum computed independently on the implementation's answers.",
         "Rocq proof: optimality of the bottom-up partition search by induction, saturation algebra; unit correspondence + brute-force oracle"),
}
NOTE = ("Trusted: Coq 8.16.1 kernel, extraction with ExtrOcamlBasic only, OCaml driver, Rust harness, tools/*.py, "
        "and the hand-written model of the named source files, which is tied to /repo by differential testing "
        "(correspondence), not by proof. Print Assumptions of every theorem: closed under the global context.")


def main():
    old = json.load(open(os.path.join(VERIF, "MANIFEST.json")))
    checks = []
    for pid in sorted(props.PROPS):
        if pid not in TEXT:
            continue
        text, tech = TEXT[pid]
        checks.append({
            "property_id": pid,
            "quick_cmd": "bin/check %s --tier quick" % pid,
            "thorough_cmd": "bin/check %s --tier thorough" % pid,
            "evidence_file": "evidence/%s.json" % pid,
            "replay_cmd_template": "bin/check %s --replay {path}" % pid,
            "engine": "rocq-model",
            "level_claimed": {"category": "proof", "text": text, "design_ref": "DESIGN.md section 4, " + pid},
            "level_note": NOTE,
            "technique": tech,
        })
    claimed = [c["property_id"] for c in checks]
    old["checks"] = checks
    for e in old.get("engines", []):
        e["serves_properties"] = claimed
    allp = [json.loads(l)["id"] for l in open(os.path.join(VERIF, "properties.jsonl"))]
    old["not_applicable"] = [{"property_id": p, "reason": "check under construction in this framework (model/theorem/correspondence not yet registered); not claimed yet"}
                             for p in allp if p not in claimed]
    json.dump(old, open(os.path.join(VERIF, "MANIFEST.json"), "w"), indent=1)
    print("claimed:", claimed)


if __name__ == "__main__":
    main()
