#!/bin/sh
# Applies every seeded change of /verif/seeded/<id>/patch.diff to /repo in turn, runs the property's quick
# check, undoes the change, and writes /verif/seeded/RESULTS.txt.  Never leaves /repo modified.
cd /verif
out=seeded/RESULTS.txt
: > $out
for d in seeded/C*/; do
  p=$(basename $d | cut -d- -f1)
  if ! git -C /repo apply --check /verif/$d/patch.diff 2>/dev/null; then echo "$(basename $d) patch-does-not-apply" >> $out; continue; fi
  git -C /repo apply /verif/$d/patch.diff
  r=$(bin/check $p 2>&1 | grep -E "VIOLATION|tier=" )
  git -C /repo checkout -- .
  nv=$(echo "$r" | grep -c "^VIOLATION")
  nf=$(echo "$r" | grep "^VIOLATION" | grep -vc "no-failing-input-found")
  echo "$(basename $d) violations=$nv with-failing-input=$nf :: $(echo "$r" | grep tier= | sed 's/.*: //')" >> $out
  echo "$r" | grep -E "VIOLATION" | head -5 > $d/checks.txt
  echo "$r" | grep tier= >> $d/checks.txt
done
git -C /repo status --short | head -3
cat $out
