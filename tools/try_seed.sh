#!/bin/sh
# usage: tools/try_seed.sh <seed-name> <property ids to check...>
# Confirms a seeded change in its scratch worktree (/tmp/wt-<name>: build, tests, demo), copies it to
# /verif/seeded/<name>/, applies it to /repo, runs the checks, and undoes it straight afterwards.
name=$1; shift
wt=/tmp/wt-$name; sd=/tmp/seed-$name; out=/verif/seeded/$name
mkdir -p $out
cp $sd/patch.diff $sd/meta.json $out/ 2>/dev/null
cp $sd/seed_demo.rs $sd/demo_output.txt $out/ 2>/dev/null
cp $sd/seed_demo.sh $out/ 2>/dev/null
echo "== confirm in worktree $wt"
( cd $wt && git diff --stat -- src | tail -1
  CARGO_TARGET_DIR=$wt/target cargo test --workspace --no-fail-fast --offline 2>&1 | grep -E "^test result" | head -3
  CARGO_TARGET_DIR=$wt/target cargo run --offline $DEMO_FEATURES --example seed_demo >/tmp/demo-$name.changed 2>&1; echo "demo on changed tree: exit $?"
  git stash -q -- src && CARGO_TARGET_DIR=$wt/target cargo run --offline $DEMO_FEATURES --example seed_demo >/tmp/demo-$name.orig 2>&1; echo "demo on original tree: exit $?"; git stash pop -q
) 2>&1 | tee $out/confirm.txt
echo "== apply to /repo and run checks: $*"
git -C /repo apply $out/patch.diff || { echo "patch does not apply"; exit 2; }
: > $out/checks.txt
for p in "$@"; do (cd /verif && bin/check $p 2>&1 | grep -E "VIOLATION|tier=" | head -4) | tee -a $out/checks.txt; done
git -C /repo checkout -- .
git -C /repo status --short | head -3
