"""Per-property check specifications and the common check skeleton."""
import json, os, re, time
import fv
import translate

TRUSTED_BASE = [
    "Coq 8.16.1 kernel (coqc; vm_compute used for finite sweeps/examples; no native_compute)",
    "no axioms declared; Print Assumptions must report 'Closed under the global context' (allow-list otherwise)",
    "extraction to OCaml with ExtrOcamlBasic only (bool, option, unit, list, prod, sumbool, sumor); N/Z/positive/nat stay inductive",
    "OCaml 4.13.1 + ocaml/driver.ml + ocaml/conv.ml (case parsing, number conversion)",
    "Rust harness /verif/harness (case generation, calling the crate built from /repo with --cfg flacenc_verif)",
    "tools/translate.py (Generated.v from the compiled crate's dump and a source scan)",
    "tools/fv.py, tools/props.py (orchestration, diffing)",
]


class Result:
    def __init__(self, pid):
        self.pid = pid
        self.violations = []
        self.known_hits = []
        self.obligations = 0
        self.discharged = 0
        self.evaluations = 0
        self.distinct_nontrivial = 0
        self.disagreements = 0
        self.samples = []
        self.rule = ""
        self.assumptions_text = ""
        self.extra = {}
        self.assumptions = []
        self.checker_cmd = ""
        self.stream_data = {}

    def evidence(self, tier, seed, wall):
        cov = {
            "obligations": self.obligations,
            "discharged": self.discharged,
            "checker_cmd": self.checker_cmd or "make (coqc 8.16.1) on the property's .vo closure",
            "trusted_base": TRUSTED_BASE,
            "evaluations": self.evaluations,
            "distinct_nontrivial": self.distinct_nontrivial,
            "rule": self.rule,
            "samples": self.samples[:8] if self.samples else ["(no case evaluated)"],
            "disagreements_checked": self.disagreements,
            "print_assumptions": self.assumptions_text[-3000:],
        }
        cov.update(self.extra)
        return {
            "property_id": self.pid, "tier": tier, "seed": seed, "level": "proof",
            "coverage": cov, "assumptions": self.assumptions, "wall_s": round(wall, 2),
            "violations": len(self.violations),
        }


# ----------------------------------------------------------------------------------------

def nontrivial_sink(case, out):
    # non-trivial: at least 3 operations and the bit string crosses a 64-bit word boundary
    toks = case.split(" ")[3:]
    m = re.match(r"\S+ ok (\d+)", out)
    return len(toks) >= 3 and m is not None and int(m.group(1)) > 64


PROPS = {
    "C11": {
        "diff_is_violation": True,
        "coq": "theories/Props/C11.v",
        "theorems": ["C11_sink_refines_ideal", "C11_user_sink_receives_ideal", "C11_bits_view"],
        "streams": [{"name": "SINK", "quick": 6000, "thorough": 120000, "profiles": ["debug", "release"],
                     "nontrivial": nontrivial_sink}],
        "rule": "SINK: random operation sequences (1..12 ops after a random 0..63-bit offset) over MemSink<u8>, "
                "MemSink<u64> and a user sink with only the required methods; every operand width, bit counts "
                "0..=width, value classes 0/all-ones/single-bit/random, zero runs up to 300, alignment, byte "
                "slices. Non-trivial = >=3 ops and final length > 64 bits; distinct = distinct case text.",
        "assumptions": ["model of bitsink.rs is hand-written; tied by SINK correspondence (debug+release)",
                        "operand widths are the four sealed Bits types; bit counts n <= width (n > width is a caller bug that panics)"],
    },
}


def c09_oracle(pid, res, driver):
    """enc_oracle on the ENC stream, plus: frame lengths of the targeted loud blocks (CNT E cases: quotient sums around 2^32
    with Rice parameter 0, where a wrapped size estimate makes a 512 MiB subframe look smaller than the verbatim one),
    measured with a counting sink, against the verbatim frame size computed here."""
    findings = enc_oracle(pid, res, driver)
    data = res.stream_data.get("CNT")
    n_checked = 0
    if data:
        for c, o in zip(data["cases"], data["impl"].get("debug", [])):
            t = c.split(" ", 3)
            if len(t) < 4 or t[2] != "E":
                continue
            short = {"case": c, "impl": o[:300]}
            if o.endswith("panic") or "no-output" in o or o.endswith("hang"):
                findings.append(dict(short, why="encoding / writing a valid loud block ended in a panic or abort"))
                continue
            m = re.search(r"lens=(\S+)", o)
            if not m:
                continue
            pc = parse_enc_case("ENC x " + t[3])
            n = len(pc["samples"]) // pc["ch"]
            lens = [] if m.group(1) == "-" else [int(x) for x in m.group(1).split(",")]
            n_checked += 1
            for i, L in enumerate(lens):
                blk = pc["bs"] if (i + 1) * pc["bs"] <= n else n - i * pc["bs"]
                verb = header_bytes(blk, pc["rate"], i) + (pc["ch"] * (8 + pc["bps"] * blk) + 7) // 8 + 2
                if L > verb + 2 * pc["ch"]:
                    findings.append(dict(short, why="frame %d has %d bytes > verbatim %d + 2 per channel" % (i, L, verb)))
                    break
    res.extra["loud_blocks_checked"] = n_checked
    return findings


def c09_targeted_cases(hb):
    """Blocks whose first Rice partition is silent and whose rest is uniform noise at 32 amplitudes around the point where a
    predicted subframe costs about as much as a verbatim one (a size estimate that is a little too small then lets an
    oversized subframe through), LPC order 24 / 12 with the fixed predictors off, Rice parameters capped at 12 / 14."""
    out = fv.sh([hb, "dump"], timeout=600).stdout
    cfgd = re.search(r"^cfgdefault (\S+)", out, re.M).group(1)
    def cfg(bs, **kw):
        c = re.sub(r"bs=\d+", "bs=%d" % bs, cfgd)
        for k, v in dict(mt=0, **kw).items():
            c = re.sub(r"(^|;)%s=[^;]*" % k, lambda m: "%s%s=%s" % (m.group(1), k, v), c)
        return c
    cases = []
    j = 0
    for bs in (4104, 2056, 4096, 1032):
        for (lo, mp, uf) in ((24, 12, 0), (12, 14, 0), (24, 14, 1)):
            for a in range(14000, 32768, 900):
                x = 12345 + a * 7 + bs
                vals = []
                for t in range(bs):
                    x = (x * 1103515245 + 12345) & 0x7FFFFFFF
                    vals.append(0 if t < bs // 8 else ((x >> 8) % (2 * a + 1)) - a)
                cases.append("CNT pq%d E %s 44100 1 16 %d %s" % (j, cfg(bs, lo=lo, mp=mp, uf=uf, ul=1), bs, ",".join(map(str, vals))))
                j += 1
    return cases


def frames_over_verbatim(c, o):
    """(frame index, length, verbatim length) of the first frame of a CNT E case that is more than 2 bytes per channel larger than
    its verbatim encoding, or None."""
    t = c.split(" ", 3)
    m = re.search(r"lens=(\S+)", o)
    if len(t) < 4 or t[2] != "E" or not m:
        return None
    pc = parse_enc_case("ENC x " + t[3])
    n = len(pc["samples"]) // pc["ch"]
    lens = [] if m.group(1) == "-" else [int(x) for x in m.group(1).split(",")]
    for i, L in enumerate(lens):
        blk = pc["bs"] if (i + 1) * pc["bs"] <= n else n - i * pc["bs"]
        verb = header_bytes(blk, pc["rate"], i) + (pc["ch"] * (8 + pc["bps"] * blk) + 7) // 8 + 2
        if L > verb + 2 * pc["ch"]:
            return (i, L, verb)
    return None


def c09_post_search(pid, res):
    """Run when the correspondence broke and no explored case violates the property: only the implementation is consulted."""
    hb = fv.build_harness("release")
    cases = c09_targeted_cases(hb)
    outs = fv.run_lines([hb, "run"], cases, timeout=1500)
    findings = []
    for c, o in zip(cases, outs):
        if o.endswith("panic"):
            findings.append({"case": c, "impl": o[:300], "profile": "release", "why": "encoding a valid block panicked"})
            continue
        r = frames_over_verbatim(c, o)
        if r:
            findings.append({"case": c, "impl": o[:300], "profile": "release",
                             "why": "frame %d has %d bytes > verbatim %d + 2 per channel" % r})
    res.extra["post_search_cases"] = len(cases)
    return findings


PROPS["C09"] = {
    "post_search": c09_post_search,
    "coq": "theories/Props/C09.v",
    "theorems": ["C09_subframe_le_verbatim", "C09_frame_body_le_verbatim", "C09_frame_bits_bound", "C09_frame_bytes_le_verbatim"],
    "streams": "ENC+CNT0",
    "rule": "ENC+CNT0",
    "always_cases": lambda hb: {"CNT": cnt_targeted_cases(hb)},
    "oracle": c09_oracle,
    "assumptions": ["the entropy estimator and the LPC estimator are arbitrary functions (oracles) in the theorems",
                    "frame byte length = frame_count_bits/8 is property C08",
                    "hand-written model of coding.rs tied by whole-stream byte correspondence (ENC)"],
}


def nontrivial_cnt(case, out):
    m = re.search(r"count=(\d+)", out)
    t = case.split(" ")
    if not m:
        return False
    return (t[2] == "R" and int(m.group(1)) > 200) or (t[2] == "H" and int(t[8]) > 127)


def cnt_oracle(pid, res, driver):
    findings = []
    data = res.stream_data.get("CNT")
    if data:
        for c, o in zip(data["cases"], data["impl"].get("debug", [])):
            m = re.search(r"count=(\d+) written=(\d+)(?: written64=(\d+))?", o)
            if " ok " in o and m:
                if m.group(1) != m.group(2) or (m.group(3) and m.group(3) != m.group(1)) or " same=0" in o:
                    findings.append({"case": c, "impl": o[:300], "why": "count_bits differs from the number of bits written (or the two sink types disagree)"})
            elif o.endswith("panic") or "no-output" in o:
                findings.append({"case": c, "impl": o[:300], "why": "count_bits/write panicked on a verified component"})
    findings += enc_oracle(pid, res, driver)
    return findings


def cnt_targeted_cases(hb):
    """C08: inputs whose residual quotient sums lie around 2^32 when coded with Rice parameter 0 and the order-0 fixed
    predictor (loud 24-bit blocks) - reached THROUGH THE ENCODER, which builds residuals without the constructor's checks."""
    out = fv.sh([hb, "dump"], timeout=600).stdout
    cfgd = re.search(r"^cfgdefault (\S+)", out, re.M).group(1)
    def cfg(bs, **kw):
        c = re.sub(r"bs=\d+", "bs=%d" % bs, cfgd)
        for k, v in dict(mt=0, ul=0, fo=0, mp=0, **kw).items():
            c = re.sub(r"(^|;)%s=[^;]*" % k, lambda m: "%s%s=%s" % (m.group(1), k, v), c)
        return c
    cases = []
    for j, (bs, ch, x) in enumerate([(32767, 1, 65540), (32767, 1, 65530), (32767, 1, 70000), (32767, 1, -65541), (16384, 1, 131100),
                                     (32767, 2, 65540), (8192, 1, 262200), (32767, 1, 131080)]):
        n = bs * ch
        vals = ",".join(str(x + ((k * 7) % 5) - 2) for k in range(n))
        cases.append("CNT ps%d E %s 44100 %d 24 %d %s" % (j, cfg(bs), ch, bs, vals))
    return cases


def cnt_post_search(pid, res):
    """Only the implementation is consulted: count_bits of every frame and of the stream against the bits a counting
    sink receives, on the targeted cases."""
    hb = fv.build_harness("release")
    cases = cnt_targeted_cases(hb)
    outs = fv.run_lines([hb, "run"], cases, timeout=900)
    findings = []
    for c, o in zip(cases, outs):
        m = re.search(r"count=(\d+) written=(\d+)", o)
        if " ok " in o and m and m.group(1) != m.group(2):
            findings.append({"case": c, "impl": o[:300], "profile": "release",
                             "why": "count_bits differs from the number of bits written for a stream made by the encoder (quotient sum around 2^32)"})
        elif o.endswith("panic"):
            findings.append({"case": c, "impl": o[:300], "profile": "release", "why": "count_bits/write panicked on an encoder-made stream"})
    res.extra["post_search_cases"] = len(cases)
    return findings


CNT_STREAM = {"name": "CNT", "quick": 1500, "thorough": 30000, "profiles": ["debug", "release"], "nontrivial": nontrivial_cnt}

PROPS["C08"] = {
    "coq": "theories/Props/C08.v",
    "theorems": ["C08_residual", "C08_subframe", "C08_ops_len_is_bits", "C08_frame", "C08_frame_whole_bytes",
                 "C08_precompute", "C08_either_sink", "C08_metadata", "C08_stream", "C08_precomputed_stream"],
    "streams": "ENC+CNT",
    "rule": "ENC+CNT",
    "oracle": cnt_oracle,
    "post_search": cnt_post_search,
    "thorough_cases": lambda hb: {"CNT": cnt_targeted_cases(hb)},
    "assumptions": ["shape hypotheses (wf_residual, sub_shape, frame_ops_wfb) are decidable side conditions; the encoder's outputs "
                    "are shown to satisfy them by correspondence (and by proof where Proofs/* state it)",
                    "stream-level sum is checked on every ENC case (cb field) and follows from the frame theorem"],
}


def zigzag(v):
    return 2 * v if v >= 0 else -2 * v - 1


def rice_oracle(pid, res, driver):
    """Brute force over the whole search space (every order, every parameter per partition)."""
    findings = []
    data = res.stream_data.get("RICE")
    if not data:
        return findings
    checked = 0
    for c, o in zip(data["cases"], data["impl"].get("debug", [])):
        t = c.split(" ")
        if t[2] != "F":
            continue
        m = re.match(r"\S+ ok order=(\d+) ps=(\S+) bits=(\d+)", o)
        if not m:
            findings.append({"case": c[:2000], "impl": o[:200], "why": "find_partitioned_rice_parameter did not return"})
            continue
        warm, maxp = int(t[3]), int(t[4])
        errs = [zigzag(int(x)) for x in t[5].split(",")]
        n = len(errs)
        mm = max(64, warm)
        if n // mm == 0:
            continue
        tzn = (n & -n).bit_length() - 1
        omax = min(15, (n // mm).bit_length() - 1, tzn)
        def cost(es, p):
            return 4 + len(es) * (p + 1) + sum(e >> p for e in es)
        def parts(o):
            part = n >> o
            return [errs[i * part + (warm if i == 0 else 0):(i + 1) * part] for i in range(1 << o)]
        opt = min(sum(min(cost(es, p) for p in range(min(maxp, 15) + 1)) for es in parts(o)) for o in range(omax + 1))
        io, ips, ibits = int(m.group(1)), [int(x) for x in m.group(2).split(",")], int(m.group(3))
        checked += 1
        if io > omax or len(ips) != (1 << io) or any(p > maxp for p in ips):
            findings.append({"case": c[:2000], "impl": o[:200], "why": "chosen order/parameters outside the search space"})
            continue
        chosen = sum(cost(es, p) for es, p in zip(parts(io), ips))
        if opt < (1 << 28) - 1 and (chosen != opt or ibits != opt):
            findings.append({"case": c[:2000], "impl": o[:200], "why": "chosen Rice coding costs %d bits (reported %d) but the optimum of the search space is %d" % (chosen, ibits, opt)})
    res.extra["oracle_checked"] = checked
    return findings


def nontrivial_rice(case, out):
    m = re.search(r"order=(\d+)", out)
    return (m is not None and int(m.group(1)) >= 1) or case.split(" ")[2] in ("M", "Z")


RICE_STREAM = {"name": "RICE", "quick": 2500, "thorough": 40000, "profiles": ["debug", "release"], "nontrivial": nontrivial_rice}

PROPS["C13"] = {
    "coq": "theories/Props/C13.v",
    "theorems": ["C13_rice_optimal", "C13_table_merge_exact", "C13_finest_order"],
    "streams": [RICE_STREAM],
    "rule": "RICE: unit-level find_partitioned_rice_parameter on residual signals (zeros, uniform at scales 1..2^27, sparse "
            "outliers to 2^30, +-i32::MAX, per-64-sample scale changes, log-uniform magnitudes, alternating), lengths 64..4608 "
            "incl. non-powers of two and (1 in 16) long blocks 8192..32640 whose finest partition order is 7..9, warm-up 0..32, every maximum parameter class; PrcBitTable from_errors/merge/minimizer on "
            "folded values incl. runs >= 2^28 (saturation). Non-trivial = chosen order >= 1 or a table op.",
    "oracle": rice_oracle,
    "assumptions": ["optimality is stated over the finest partitions of the folded residual (finest_parts); its identification with "
                    "the sample-indexed residual_bits of the emitted Residual is checked by the brute-force oracle and the ENC stream",
                    "cost tables are the saturating ones of the repaired code (fix D3)"],
}


DLV_STREAM = {"name": "DLV", "quick": 400, "thorough": 6000, "profiles": ["debug"], "augment": True,
              "nontrivial": lambda c, o: nontrivial_enc(c, o) and not c.split(" ")[2].endswith("s"), "memlimit_kb": 8000000}
DLV_RULE = (" DLV: the ENC generator with delivery variants: integer vs packed-byte fill, with/without length hint, "
            "single-threaded vs multi-threaded with 1..16 workers from the configuration or from FLACENC_WORKERS; the "
            "model (which has no notion of delivery or threads) must produce the same bytes; two cases in every 200 are one LONG input (2049..2348 frames of 32 samples plus a short frame, so frame numbers cross the 1-/2-/3-byte classes), once single- and once multi-threaded, and two more are one WIDE input (3/5/6/7 channels, 24 bits, one block of 3200..7300 samples: more than 16384 interleaved samples and 64 KiB per block, integer delivery, no length hint), again once single- and once multi-threaded. Non-trivial = multi-threaded "
            "and at least one Fixed/LPC subframe.")

PROPS["C01"] = {
    "coq": "theories/Props/C01.v",
    "theorems": ["C01_subframe_lossless", "C01_frame_lossless", "C01_zigzag_inverse", "C01_fixed_predictors", "C01_midside",
                 "C01_decoder_reads_subframe", "C01_subframe_ops_are_these_bits", "C01_bytes_carry_the_bits", "C01_subframe_bytes_decode_to_input",
                 "C01_encoder_subframes_verify", "C01_subframe_end_to_end", "C01_decoder_reads_frame", "C01_block_code_reads",
                 "C01_rate_code_reads", "C01_word_sink_bytes_carry_the_bits", "C01_frame_end_to_end", "C01_stream_end_to_end",
                 "C01_fixed_size_frame_end_to_end", "C01_stream_end_to_end_lpc", "C01_stream_end_to_end_no_lpc", "C01_par_stream_end_to_end"],
    "streams": "ENC+DLV", "rule": "ENC+DLV",
    "oracle": lambda pid, res, driver: enc_oracle(pid, res, driver) + enc_oracle(pid, res, driver, "DLV"),
    "assumptions": ["the theorems are about the hand-written encoder model; that the Rust encoder computes it is the byte-exact ENC / DLV correspondence, "
                    "and the extracted independent decoder is additionally run on every stream the implementation emits",
                    "named hypothesis lpc_fits (LPC residuals representable in i32) - evaluated by the model on every case",
                    "a panic inside the floating-point estimators cannot be exhibited by the model (monitored only)"],
}
def crc8_py(bs):
    r = 0
    for b in bs:
        r ^= b
        for _ in range(8):
            r = ((r << 1) ^ 0x07) & 0xFF if r & 0x80 else (r << 1) & 0xFF
    return r


def header_oracle(pid, res, driver):
    """C02 on single frame headers (CNT H cases): the bytes FrameHeader::write emitted are decoded by the RFC 9639 rules,
    written here independently of the model: sync code, reserved bits, the UTF-8-like coded number (canonical length,
    continuation bytes 10xxxxxx, value = the number asked for), CRC-8."""
    findings = []
    data = res.stream_data.get("CNT")
    if not data:
        return findings
    for c, o in zip(data["cases"], data["impl"].get("debug", [])):
        t = c.split(" ")
        if len(t) < 9 or t[2] != "H" or " ok " not in o:
            continue
        m = re.search(r"written64=\d+ ([0-9a-f]+) same=", o)
        if not m:
            continue
        b = bytes.fromhex(m.group(1))
        num = int(t[8]); variable = t[7] == "S"
        why = None
        if len(b) < 6 or b[0] != 0xFF or (b[1] & 0xFE) != 0xF8 or (b[1] & 1) != (1 if variable else 0) or (b[3] & 1) != 0:
            why = "sync code / reserved bits / blocking-strategy bit are wrong"
        else:
            h = b[4]
            k = 0 if h < 0x80 else (None if h < 0xC0 else 1 if h < 0xE0 else 2 if h < 0xF0 else 3 if h < 0xF8 else 4 if h < 0xFC else 5 if h < 0xFE else 6 if h == 0xFE else None)
            if k is None or len(b) < 5 + k + 1:
                why = "coded number: invalid lead byte or too few bytes"
            else:
                v = h if k == 0 else (h & ((1 << (6 - k)) - 1) if k < 6 else 0)
                ok = True
                for cb in b[5:5 + k]:
                    ok = ok and (cb & 0xC0) == 0x80
                    v = (v << 6) | (cb & 0x3F)
                if not ok:
                    why = "coded number: continuation byte is not 10xxxxxx"
                elif v != num:
                    why = "coded number decodes to %d, not %d" % (v, num)
                elif k != utf8len(num) - 1:
                    why = "coded number is not in its shortest form"
                elif crc8_py(b[:-1]) != b[-1]:
                    why = "CRC-8 of the header is wrong"
        if why:
            findings.append({"case": c, "impl": o[:200], "why": "frame header is not well-formed FLAC: " + why})
    return findings


PROPS["C02"] = {
    "coq": "theories/Props/C02.v",
    "theorems": ["C02_block_size_codes", "C02_sample_rate_codes", "C02_number_roundtrip", "C02_number_defined", "C02_emitted_stream_strict"],
    "streams": "ENC+CNT", "rule": "ENC+CNT",
    "oracle": lambda pid, res, driver: enc_oracle(pid, res, driver) + header_oracle(pid, res, driver),
    "search": lambda pid, res, hb: c02_search(pid, res, hb),
    "assumptions": ["whole-stream strictness (sync, reserved bits, CRCs, padding, subframe limits, frame numbering, consistency with "
                    "STREAMINFO) is decided per run by the extracted strict validator on the implementation's bytes",
                    "code tables come from the compiled crate (GenTables.v), so the sweeps range over the implementation's outputs"],
}
PROPS["C03"] = {
    "coq": "theories/Props/C03.v",
    "theorems": ["C03_streaminfo_true", "C03_md5_split_independent", "C03_decoded_streaminfo_true"],
    "streams": "ENC+DLV", "rule": "ENC+DLV",
    "oracle": lambda pid, res, driver: enc_oracle(pid, res, driver) + enc_oracle(pid, res, driver, "DLV"),
    "assumptions": ["MD5 is an oracle (any function of the byte string); the md-5 crate's chunked update is assumed to equal one update "
                    "of the concatenation", "the oracle recomputes MD5 and the count from the raw input with Python's hashlib"],
}
PROPS["C04"] = {
    "coq": "theories/Props/C04.v",
    "theorems": ["C04_bounds_exact", "C04_bounds_match_decoded_frames", "C04_precomputed_frames_same_bounds"],
    "streams": "ENC+DLV", "rule": "ENC+DLV",
    "oracle": lambda pid, res, driver: enc_oracle(pid, res, driver) + enc_oracle(pid, res, driver, "DLV"),
    "assumptions": ["frame_size_field = count_bits/8; that this is the emitted byte length is property C08"],
}


def fail_oracle(pid, res, driver):
    findings = []
    data = res.stream_data.get("FAIL")
    if data:
        for c, o in zip(data["cases"], data["impl"].get("debug", [])):
            t = o.split(" ")
            m = re.search(r"k=(\d+) total=(\d+) accepted=(\d+)", o)
            if len(t) > 1 and t[1] == "panic" or "no-output" in o:
                findings.append({"case": c[:3000], "impl": o[:200], "why": "write panicked (or aborted) when the sink failed"})
            elif m:
                k, total, acc = int(m.group(1)), int(m.group(2)), int(m.group(3))
                exp = "err-sink" if k < total else "ok"
                if t[1] != exp or acc != min(k, total):
                    findings.append({"case": c[:3000], "impl": o[:200], "why": "sink failing at call %d of %d: expected %s with %d accepted calls" % (k, total, exp, min(k, total))})
                m2 = re.search(r"ref=(\S+) retry=(\S+)", o)
                if m2 and m2.group(1) != m2.group(2):
                    findings.append({"case": c[:3000], "impl": o[:300], "why": "after the failed write the same stream, written again on the same thread into a "
                                     "healthy sink, gives different bytes (%s) than before the failure (%s)" % (m2.group(2), m2.group(1))})
    return findings


FAIL_STREAM = {"name": "FAIL", "quick": 600, "thorough": 9000, "profiles": ["debug"], "augment": True,
               "nontrivial": lambda c, o: " err-sink " in o and "accepted=0" not in o}

PROPS["C12"] = {
    "coq": "theories/Props/C12.v",
    "theorems": ["C12_failing_sink", "C12_expansion_preserves_bits"],
    "streams": [FAIL_STREAM],
    "rule": "FAIL: streams from the ENC generator (<= 1500 samples; all subframe kinds; frames precomputed (multi-thread) or not) "
            "written - half of the cases as a whole stream, the other half as a whole stream with 1..3 further metadata blocks or as ONE COMPONENT written directly (a frame, a frame header, a subframe, "
            "the residual of a fixed / LPC subframe; index modulo the number present) - to a user sink implementing only the required methods that fails at call k (half of the cases: from call k on; the other half: ONCE, a transient error), k absolute 0..59 or at a "
            "per-mille position of the total call count incl. exactly the end. Observable: verdict (ok / err-sink / panic), number "
            "and digest of accepted calls, number of accepted bits; the stream is also written to a healthy sink before and after the failed write "
            "on the same thread (bytes must be equal). Non-trivial = failure after at least one accepted call.",
    "oracle": fail_oracle,
    "assumptions": ["the operation sequence a component sends to the caller's sink (stream_ops) is part of the hand-written model, tied by "
                    "the call digest in the FAIL stream"],
}


def src_oracle(pid, res, driver):
    findings = []
    data = res.stream_data.get("SRC")
    if data:
        outs = {}
        for c, o in zip(data["cases"], data["impl"].get("debug", [])):
            t = c.split(" ")
            if t[2] == "F":
                outs[t[1]] = (c, o)
        for cid, (c, o) in outs.items():
            if not cid.endswith("i"):
                continue
            other = outs.get(cid[:-1] + "b")
            if not other:
                continue
            t = c.split(" ")
            bps, nb = int(t[5]), int(t[7])
            if nb != (bps + 7) // 8:
                # a byte fill whose width disagrees with the declared width must be an error (C17), not checked here
                continue
            a = o.split(" ", 1)[1] if " " in o else o
            b = other[1].split(" ", 1)[1] if " " in other[1] else other[1]
            if a != b:
                findings.append({"case": c[:3000], "impl": (o[:300] + " || " + other[1][:300]),
                                 "why": "integer and byte delivery of the same samples give different buffer/context/frame results"})
    findings += [f for f in enc_oracle("C01", res, driver, "DLV")]
    return findings


SRC_STREAM = {"name": "SRC", "quick": 2500, "thorough": 40000, "profiles": ["debug", "release"],
              "nontrivial": lambda c, o: c.split(" ")[2] == "F" and " ok " in o}

PROPS["C14"] = {
    "coq": "theories/Props/C14.v",
    "theorems": ["C14_fill_equiv", "C14_context_equiv", "C14_bytes_roundtrip", "C14_no_stale_data"],
    "streams": "SRC+DLV",
    "rule": "SRC: unit-level deinterleave (1..8 channels, strides 1..64, source shorter/equal to the buffer, buffer pre-filled with "
            "recognisable stale values), le_bytes_to_i32s / i32s_to_le_bytes (widths 0..5, extreme bytes, lengths not multiples), and "
            "FrameBuf+Context filled with a full block then a second block (0, shorter, full, oversized, off-by-one) through BOTH the "
            "integer and the byte path with identical data, then read back by encoding a verbatim frame. Non-trivial = a two-fill case "
            "that succeeded." ,
    "oracle": src_oracle,
    "assumptions": ["hand-written model of source.rs/arrayutils.rs delivery functions tied by the SRC stream",
                    "byte-identical streams for both deliveries are additionally checked end-to-end by the DLV stream"],
}


def cfg_oracle(pid, res, driver):
    """Independent re-statement of the documented ranges (property text) in Python."""
    findings = []
    data = res.stream_data.get("CFG")
    if data:
        import struct
        for c, o in zip(data["cases"], data["impl"].get("debug", [])):
            t = c.split(" ")
            if t[2] != "V":
                continue
            cfg = dict(kv.split("=") for kv in t[3].split(";"))
            ok = 32 <= int(cfg["bs"]) <= 32767 and int(cfg["fo"]) <= 4 and 1 <= int(cfg["lo"]) <= 24 \
                and 1 <= int(cfg["qp"]) <= 15 and int(cfg["mp"]) <= 14 and cfg["dm"] == "0" and cfg["ma"] == "0"
            if cfg["os"] != "bc":
                ok = ok and 1 <= int(cfg["os"]) <= 64
            if cfg["win"] != "r":
                a = struct.unpack("<f", struct.pack("<I", int(cfg["win"][1:])))[0]
                ok = ok and (0.0 <= a <= 1.0)
            verdict = o.split(" ")[1] if " " in o else o
            if verdict not in ("ok", "err") or (verdict == "ok") != ok:
                findings.append({"case": c, "impl": o[:100], "why": "verification %s a configuration that is %s the documented ranges" % (
                    "accepted" if verdict == "ok" else "rejected/crashed on", "outside" if not ok else "inside")})
    if pid == "C07":
        findings += enc_oracle("C07", res, driver)
    if pid == "C19" and data:
        findings += doc_default_oracle(data)
        # the round trip starts with serialisation: every configuration value must serialise (the property quantifies over all
        # field assignments, valid or not - serialisation does not verify)
        for c, o in zip(data["cases"], data["impl"].get("debug", [])):
            t = c.split(" ")
            ot = o.split(" ")
            if t[2] == "S" and (len(ot) < 2 or ot[1] != "ok"):
                findings.append({"case": c, "impl": o[:200], "why": "serialising this configuration to TOML failed (%s): the round trip cannot complete" % " ".join(ot[1:3])})
    return findings


def parse_doc_text(s):
    """{k:v,...} with v = b0|b1 | i<int> | f<bits> | s<name> | {..}  ->  nested dict"""
    pos = [0]

    def val():
        if s[pos[0]] == "{":
            pos[0] += 1
            d = {}
            while s[pos[0]] != "}":
                j = s.index(":", pos[0])
                k = s[pos[0]:j]
                pos[0] = j + 1
                d[k] = val()
                if s[pos[0]] == ",":
                    pos[0] += 1
            pos[0] += 1
            return d
        j = pos[0]
        while j < len(s) and s[j] not in ",}":
            j += 1
        tok = s[pos[0]:j]
        pos[0] = j
        return tok
    return val()


def generated_defaults():
    txt = open(os.path.join(fv.COQ, "theories", "Generated.v")).read()
    d = {}
    for name, key in (("d_bs", "bs"), ("d_fo", "fo"), ("d_lo", "lo"), ("d_qp", "qp"), ("d_ma", "ma"), ("d_mp", "mp")):
        d[key] = re.search(r"Definition %s : N := (\d+)\." % name, txt).group(1)
    for name, key in (("d_mt", "mt"), ("d_ls", "ls"), ("d_rs", "rs"), ("d_ms", "ms"), ("d_uc", "uc"), ("d_uf", "uf"), ("d_ul", "ul"), ("d_dm", "dm")):
        d[key] = "1" if re.search(r"Definition %s : bool := (\w+)\." % name, txt).group(1) == "true" else "0"
    m = re.search(r"Definition d_order_sel : option N := (None|Some (\d+))\.", txt)
    d["os"] = "bc" if m.group(1) == "None" else m.group(2)
    m = re.search(r"Definition d_window : option N := (None|Some (\d+))\.", txt)
    d["win"] = "r" if m.group(1) == "None" else "t" + m.group(2)
    d["partitions"] = re.search(r"Definition c_DEFAULT_ENTROPY_ESTIMATOR_PARTITIONS : N := (\d+)\.", txt).group(1)
    return d


def doc_default_oracle(data):
    """C19 on the implementation: a key omitted from an accepted document takes the documented default
    (Encoder::default() as dumped from the compiled crate), a key that is present keeps its value."""
    findings = []
    dflt = generated_defaults()
    paths = {"bs": ["block_size"], "mt": ["multithread"], "ls": ["stereo_coding", "use_leftside"], "rs": ["stereo_coding", "use_rightside"],
             "ms": ["stereo_coding", "use_midside"], "uc": ["subframe_coding", "use_constant"], "uf": ["subframe_coding", "use_fixed"],
             "ul": ["subframe_coding", "use_lpc"], "fo": ["subframe_coding", "fixed", "max_order"], "lo": ["subframe_coding", "qlpc", "lpc_order"],
             "qp": ["subframe_coding", "qlpc", "quant_precision"], "dm": ["subframe_coding", "qlpc", "use_direct_mse"],
             "ma": ["subframe_coding", "qlpc", "mae_optimization_steps"], "mp": ["subframe_coding", "prc", "max_parameter"]}

    def get(doc, path):
        for k in path:
            if not isinstance(doc, dict) or k not in doc:
                return None
            doc = doc[k]
        return doc
    for c, o in zip(data["cases"], data["impl"].get("debug", [])):
        t = c.split(" ", 3)
        ot = o.split(" ")
        if t[2] != "P" or len(ot) < 3 or ot[1] != "ok":
            continue
        try:
            doc = parse_doc_text(t[3])
            got = dict(kv.split("=") for kv in ot[2].split(";"))
        except Exception:
            continue
        exp = {}
        for key, path in paths.items():
            v = get(doc, path)
            exp[key] = dflt[key] if v is None else (v[1:] if v[0] in "bi" else None)
        osel = get(doc, ["subframe_coding", "fixed", "order_sel"])
        if osel is None:
            exp["os"] = dflt["os"]
        elif isinstance(osel, dict) and osel.get("type") == "sBitCount":
            exp["os"] = "bc"
        elif isinstance(osel, dict) and osel.get("type") == "sApproxEnt":
            pv = osel.get("partitions")
            exp["os"] = dflt["partitions"] if pv is None else (pv[1:] if pv[0] == "i" else None)
        win = get(doc, ["subframe_coding", "qlpc", "window"])
        if win is None:
            exp["win"] = dflt["win"]
        elif isinstance(win, dict) and win.get("type") == "sRectangle":
            exp["win"] = "r"
        elif isinstance(win, dict) and win.get("type") == "sTukey" and str(win.get("alpha", ""))[:1] == "f":
            exp["win"] = "t" + win["alpha"][1:]
        for key, ev in exp.items():
            if ev is not None and got.get(key) != ev:
                findings.append({"case": c[:3000], "impl": o[:300],
                                 "why": "field %s of the parsed configuration is %s; the document %s, so it must be %s" % (
                                     key, got.get(key), "omits it (documented default applies)" if get(doc, paths.get(key, ["?"])) is None else "states it", ev)})
                break
    return findings


CFG_STREAM = {"name": "CFG", "quick": 3000, "thorough": 60000, "profiles": ["debug"],
              "nontrivial": lambda c, o: c.split(" ")[2] == "P" or " err" in o}
CFG_RULE = ("CFG: random configurations with 0-2 fields pushed to/over their limits (block size 0/31/32/32767/32768/2^40, fixed order "
            "4/5/2^33, partitions 0/1/64/65, LPC order 0/1/24/25, precision 0/1/15/16, max parameter 14/15, alpha bit patterns "
            "+-0, 1, 1+ulp, negative, inf, NaNs, experimental switches) through (V) into_verified, (S) toml::to_string -> canonical "
            "document, (P) canonical document with random omissions at every nesting level and injected faults (wrong type, "
            "workers = 0, unknown key, missing/unknown tag) -> toml text -> from_str. Non-trivial = a parse case or a rejection.")

PROPS["C07"] = {
    "coq": "theories/Props/C07.v",
    "theorems": ["C07_verify_exact", "C07_verified_no_panic", "C07_verified_config_encodes", "C07_verified_config_lossless", "C07_verified_config_lossless_lpc"],
    "streams": "CFG+ENC", "rule": "CFG+ENC",
    "oracle": cfg_oracle,
    "assumptions": ["PARTIAL for panics inside the floating-point estimators (NaN/inf asserts in lpc.rs): not expressible in the model, monitored on every ENC case",
                    "lpc_oracle_ok is a hypothesis on the estimator's answer; stream/frame level no-panic is inherited through encode_frame's mapM (checked by ENC)"],
}
PROPS["C19"] = {
    "coq": "theories/Props/C19.v",
    "theorems": ["C19_roundtrip", "C19_empty_document_is_default", "C19_omit_stereo_section", "C19_omit_subframe_section",
                 "C19_omit_scalars", "C19_partitions_default", "C19_verify_agrees"],
    "streams": [CFG_STREAM], "rule": CFG_RULE,
    "oracle": cfg_oracle,
    "assumptions": ["toml 0.5 and serde derive are trusted; the model is at document level (alpha given as a TOML float, integers within i64)",
                    "omission theorems are stated for whole sections and for the scalar top-level fields; arbitrary subsets are covered by the CFG stream"],
}


def parse_oracle(pid, res, driver):
    findings = []
    data = res.stream_data.get("PARSE")
    counts = {"accepted_mutants": 0, "decode_panics_on_accepted": 0, "orig": 0, "mutants": 0}
    if data:
        for c, o, mo in zip(data["cases"], data["impl"].get("debug", []), data["model"]):
            t = c.split(" ")
            orig_hash, kind, hx = t[2], t[3], t[4]
            ot = o.split(" ")
            mt = mo.split(" ")
            verdict = ot[1] if len(ot) > 1 else "no-output"
            short = {"case": c[:4000], "impl": o[:300]}
            if verdict in ("panic", "no-output"):
                if pid == "C16":
                    findings.append(dict(short, why="the stream parser panicked (or aborted) on this input"))
                continue
            m = re.search(r"v=(\S+) dec=(\S+) cb=(\d+)", o)
            if kind == "orig":
                counts["orig"] += 1
                if pid == "C15":
                    ok = verdict == "ok" and len(ot) > 2 and ot[2] == hx and m and m.group(1) == "1" and m.group(2) == orig_hash and int(m.group(3)) == 4 * len(hx)
                    if not ok:
                        findings.append(dict(short, why="parsing an emitted stream did not consume/verify/re-serialise/decode to the original"))
            else:
                counts["mutants"] += 1
                if kind == "hdr" and verdict == "ok":
                    # a frame whose header was rewritten (other codes, another coded number) with consistent CRCs.  When the parser
                    # accepts it the re-serialised bytes are compared with the MODEL's (correspondence); they need not equal the
                    # input: the parser is lenient on inputs the writer never produces (non-zero padding bits after a shorter
                    # subframe, fixed-blocking numbers >= 2^32), so equality with the input is only counted, not demanded.
                    counts["accepted_hdr"] = counts.get("accepted_hdr", 0) + 1
                    if len(ot) > 2 and ot[2] == hx:
                        counts["accepted_hdr_reserialised_identically"] = counts.get("accepted_hdr_reserialised_identically", 0) + 1
                if kind == "hdr" and pid == "C15" and len(mt) > 2 and mt[1] == "ok" and mt[2] == hx and not (verdict == "ok" and len(ot) > 2 and ot[2] == hx):
                    # the model exhibits a tree whose serialisation is exactly these bytes (so the input IS an emitted frame of the
                    # writer the ENC/CTOR streams tie to the model), and the implementation's parser does not give it back
                    findings.append(dict(short, model=mo[:300], why="these bytes are the serialisation of a tree (the model parses them and writes the same bytes back), but the implementation's parser rejects them or returns a tree that serialises differently"))
                if verdict == "ok" and kind in ("flip", "burst") and m:
                    counts["accepted_mutants"] += 1
                    if m.group(2) == "panic":
                        counts["decode_panics_on_accepted"] += 1
                    elif m.group(2) != orig_hash and pid == "C16":
                        findings.append(dict(short, why="a stream with a %s inside a frame was accepted and decodes to different audio" % kind))
    res.extra["parse_counts"] = counts
    return findings


def cmp3(line):
    t = line.split(" ")
    return " ".join(t[:2]) if len(t) > 1 and t[1] == "err" else " ".join(t[:3])


PARSE_STREAM = {"name": "PARSE", "quick": 6000, "thorough": 150000, "profiles": ["debug"], "cmp": cmp3,
                "nontrivial": lambda c, o: c.split(" ")[3] in ("flip", "burst", "trunc"),
                "thorough_env": {"VERIF_PARSE_EXHAUSTIVE": "1"}}
PARSE_RULE = ("PARSE: small emitted streams (1-8 channels i.e. every channel assignment, 8/12/16/20/24 bits, blocks 32..576, 1-2 frames, every subframe kind via random "
              "verified configurations) and mutants of them: single-bit flips at random positions inside the frames (EVERY bit position "
              "of every frame in the thorough tier), 2..8-bit bursts at random positions, truncation at a random byte, single-bit flips "
              "in the metadata, random byte strings with and without the fLaC marker, and frames whose header was REWRITTEN with both CRCs made consistent again (hdr: every block-size / sample-rate / channel / sample-size code incl. the reserved ones, reserved bits, blocking bit, and coded numbers at the boundaries and inside every length class up to 2^36-1). Observable: verdict (ok/err/panic), re-serialised "
              "bytes; for accepted inputs also verify, decoded-audio hash and count_bits. Non-trivial = a mutant inside a frame or a "
              "truncation.")

PROPS["C15"] = {
    "coq": "theories/Props/C15.v",
    "theorems": ["C15_number_parse", "C15_residual", "C15_residual_ops_bits", "C15_subframe", "C15_subframe_ops_bits",
                 "C15_bytes_carry_the_bits", "C15_ideal_bits", "C15_frame", "C15_stream", "C15_encoded_stream", "C15_encoded_stream_lpc", "C15_encoded_stream_verifies",
                 "C15_precompute_coherent", "C15_precomputed_stream", "C15_par_encoded_stream"],
    "streams": [PARSE_STREAM], "rule": PARSE_RULE,
    "oracle": parse_oracle,
    "assumptions": ["PARTIAL: only the number coding is proved through the parser model; the whole-tree inverse is decided per run",
                    "parser model (Model/Parser.v) tied to component/parser.rs by the PARSE stream (verdict + re-serialised bytes)"],
}
PROPS["C16"] = {
    "coq": "theories/Props/C16.v",
    "theorems": ["C16_crc16_detects_bursts", "C16_crc8_detects_bursts", "C16_crc_is_bitwise", "C16_crc16_accept_iff",
                 "C16_crc16_field_bursts", "C16_crc8_field_bursts", "C16_footer_bursts",
                 "C16_accepted_frame_has_valid_crc", "C16_altered_frame_rejected_at_boundary",
                 "C16_accepted_frame_has_valid_header_crc", "C16_altered_header_rejected_at_boundary"],
    "streams": [PARSE_STREAM], "rule": PARSE_RULE,
    "oracle": parse_oracle,
    "assumptions": ["PARTIAL: bursts that change the number of bits consumed by the subframes (CRC window moves) are enumerated, not proved",
                    "a panic inside Decode on an accepted-but-malformed tree is counted (parse_counts) but is not a violation of this property"],
}


def par_blocks(c):
    t = c.split(" ")
    ch, bs = int(t[8]), int(t[10])
    n = 0 if t[11] == "-" else len(t[11].split(",")) // ch
    return (n + bs - 1) // bs


def par_model_input(c, o):
    t = c.split(" ")
    if t[11] != "-" and len(t[11].split(",")) % int(t[8]) != 0:
        # the source ends in the middle of an inter-channel sample: outside the LTS; only the implementation-level
        # comparison (multi- vs single-threaded result, hang, leaked threads) applies
        return "CNT %s E skip" % t[1]
    tr = o.split(" | ", 1)[1] if " | " in o else "F: | H: | M: | W:"
    return "PARTRACE %s %s %d %s %s | %s" % (t[1], t[2], par_blocks(c), t[4], t[5], tr)


def par_kind(x):
    return "ok" if x.startswith("ok") else x


def par_cmp_impl(o):
    m = re.search(r"mt=(\S+)", o)
    return "%s valid %s" % (o.split(" ", 1)[0], par_kind(m.group(1)) if m else "?")


def par_cmp_model(o):
    t = o.split(" ")
    m = re.search(r"lts=(\S+)", o)
    return "%s %s %s" % (t[0], t[1] if len(t) > 1 else "?", par_kind(m.group(1)) if m else "?")


def par_oracle(pid, res, driver):
    findings = []
    data = res.stream_data.get("PAR")
    stats = {"ok": 0, "err": 0, "traces_valid": 0}
    if data:
        for c, o, mo in zip(data["cases"], data["impl"].get("debug", []), data["model"]):
            ms = re.search(r"st=(\S+) mt=(\S+) leaked=(\d+)", o)
            short = {"case": c[:3000], "impl": o[:400]}
            if not ms:
                findings.append(dict(short, why="the multi-threaded run produced no result (crash or timeout of the harness)"))
                continue
            st, mt, leaked = ms.group(1), ms.group(2), int(ms.group(3))
            if " valid " in mo:
                stats["traces_valid"] += 1
            if mt in ("panic", "hang"):
                if pid == "C06" or st.startswith("ok"):
                    findings.append(dict(short, why="multi-threaded encoding ended in a %s (single-threaded: %s)" % (mt, par_kind(st))))
                continue
            if pid == "C05" and st.startswith("ok"):
                stats["ok"] += 1
                if mt != st:
                    findings.append(dict(short, why="multi-threaded output differs from single-threaded output"))
            if pid == "C06":
                if par_kind(mt) != par_kind(st):
                    findings.append(dict(short, why="multi-threaded result kind %s differs from single-threaded %s" % (par_kind(mt), par_kind(st))))
                elif leaked != 0:
                    findings.append(dict(short, why="%d thread(s) started by the call were still running after it returned" % leaked))
                if not st.startswith("ok"):
                    stats["err"] += 1
                ms2 = re.search(r"seq=(\S+)", mo)
                if ms2 and par_kind(ms2.group(1)) != par_kind(st):
                    findings.append(dict(short, why="single-threaded result %s differs from the sequential reference of the model %s" % (par_kind(st), ms2.group(1))))
    res.extra["par_stats"] = stats
    res.extra["traces_validated_against_impl"] = stats["traces_valid"]
    if pid == "C05":
        findings += [f for f in enc_oracle("C01", res, driver, "DLV")]
        # the same input delivered single-threaded and multi-threaded in two DLV cases: the bytes must be identical
        dlv = res.stream_data.get("DLV")
        groups = {}
        if dlv:
            for c, o in zip(dlv["cases"], dlv["impl"].get("debug", [])):
                t = c.split(" | ")[0].split(" ", 3)
                ot = o.split(" ")
                if len(t) == 4 and len(ot) > 2 and ot[1] == "ok":
                    groups.setdefault(t[3], []).append((t[2], c, o, ot[-1]))
        pairs = 0
        for key, lst in groups.items():
            sts = [x for x in lst if x[0].endswith("s")]
            mts = [x for x in lst if not x[0].endswith("s")]
            if sts and mts:
                pairs += 1
                for m in mts:
                    if m[3] != sts[0][3]:
                        i = next((k for k in range(min(len(m[3]), len(sts[0][3]))) if m[3][k] != sts[0][3][k]), -1)
                        findings.append({"case": m[1], "cases": [sts[0][1], m[1]], "impl": m[2][:300], "impl_single_thread": sts[0][2][:300],
                                         "why": "the multi-threaded stream differs from the single-threaded stream of the same input (first difference at byte %d)" % (i // 2)})
                        break
        res.extra["dlv_same_input_pairs"] = pairs
    return findings


PAR_STREAM = {"name": "PAR", "quick": 320, "thorough": 6000, "profiles": ["debug"], "model_from_impl": par_model_input,
              "cmp": par_cmp_impl, "cmp_model": par_cmp_model, "shards": 6, "timeout": 2400,
              "nontrivial": lambda c, o: o.count(",P") >= 3}
PAR_RULE = ("PAR: multi-threaded encoding of 0..9 blocks (+ optional short tail) with 1..4 workers (1 case in 32: 17, 33, 40 or 64 workers) under seeded schedule perturbation "
            "(yield / sleep 50-450us / spin at every hook point of par.rs, derived from the case seed), optionally a read error at read "
            "index 0..blocks+1 and/or out-of-range samples in 1-2 blocks; 1 case in 24 with 2 channels ends in the middle of an inter-channel sample (LTS not consulted for those). Observables: result (bytes or error kind) vs the single-threaded "
            "run on the same source, threads alive after return (/proc/self/task), timeout 20 s, and the event log turned into per-thread "
            "label sequences that the extracted LTS (Model/Par.v) must accept as a run ending in the same outcome. Non-trivial = at least "
            "three frames pushed by workers.")

PROPS["C05"] = {
    "coq": "theories/Props/C05.v",
    "theorems": ["C05_all_schedules_w1_b1", "C05_all_schedules_w2_b1", "C05_all_schedules_w1_b0", "C05_par_refines_seq",
                 "C05_invariant_init", "C05_invariant_step", "C05_par_result_is_encode_blocks", "C05_par_stream_same_bytes"],
    "streams": "PAR+DLV", "rule": "PAR+DLV",
    "oracle": par_oracle,
    "assumptions": ["the general theorem is about the LTS of Model/Par.v (all W, all block counts, all fault plans, all schedules); atomicity is that "
                    "of the hook points; crossbeam channels and std Mutex are trusted to be linearizable FIFO queues / locks; that par.rs "
                    "follows the LTS is checked by trace validation (complete search over linearisations of every recorded event log)",
                    "a frame is identified by its number: encoding a block is a function of the block (C10) and of the number"],
}
PROPS["C06"] = {
    "coq": "theories/Props/C06.v",
    "theorems": ["C06_every_schedule_is_short", "C06_potential_decreases", "C06_failures_propagate", "C06_final_no_thread_left",
                 "C06_deadlock_free", "C06_reachable_completes",
                 "C06_read_failure_w1", "C06_invalid_block_w1"],
    "streams": [PAR_STREAM], "rule": PAR_RULE,
    "oracle": par_oracle,
    "assumptions": ["termination (no infinite schedule), deadlock freedom, failure propagation and 'nothing left running at the final state' are "
                    "proved for all W, block counts, fault plans and schedules of the protocol LTS; that par.rs follows the LTS (trace validation), "
                    "real thread exit and wall-clock termination are observed on the implementation; a panic inside a worker (not a failure the "
                    "property lists) is outside the LTS",
                    "the 20 s timeout that decides 'hang' is > 100x the fault-free run time of the generated cases"],
}


def api_oracle(pid, res, driver):
    """Independent statement of the supported domain (property text) in Python."""
    findings = []
    data = res.stream_data.get("API")
    if data:
        for c, o in zip(data["cases"], data["impl"].get("debug", [])):
            t = c.split(" ")
            verdict = (o.split(" ") + ["?", "?"])[1]
            k = t[2]
            a = [int(x) for x in t[3:]]
            supported, neutral = None, False
            if k == "SI":
                supported = a[0] <= 96000 and 1 <= a[1] <= 8 and a[2] in (8, 12, 16, 20, 24)
                neutral = a[0] <= 96000 and 1 <= a[1] <= 8 and a[2] in (9, 13, 17, 21, 25)
            elif k == "FB":
                supported = 1 <= a[0] <= 8 and 32 <= a[1] <= 32767
            elif k == "FI":
                supported = a[2] <= a[0] * a[1]
            elif k == "FL":
                ch, cap, bps, ln, nb = a
                supported = 1 <= nb <= 4 and ln % nb == 0 and ln // nb <= ch * cap and (ln == 0 or nb == (bps + 7) // 8)
            elif k == "FR":
                supported = a[0] < 2 ** 31 and a[1] in (0, 6, 7)     # 6, 7: the largest / smallest value of the width (valid)
            elif k == "ST":
                mt, rate, ch, bps, bs, n, bad = a
                inr = bad < 0 or n == 0
                supported = rate <= 96000 and 1 <= ch <= 8 and bps in (8, 12, 16, 20, 24) and 32 <= bs <= 32767 and inr
                neutral = bps in (9, 13, 17, 21, 25)
            if verdict in ("panic", "hang", "no-output"):
                findings.append({"case": c, "impl": o[:100], "why": "entry point ended in %s" % verdict})
            elif not neutral and supported is not None:
                if supported and verdict != "ok":
                    findings.append({"case": c, "impl": o[:100], "why": "supported arguments were rejected"})
                if not supported and verdict != "err":
                    findings.append({"case": c, "impl": o[:100], "why": "arguments outside the supported domain were accepted"})
    return findings


API_STREAM = {"name": "API", "quick": 5000, "thorough": 100000, "profiles": ["debug", "release"],
              "nontrivial": lambda c, o: o.endswith(" err") or " err " in o}
API_RULE = ("API: boundary and wrap-around grid for every argument of StreamInfo::new, FrameBuf::with_size, fill_interleaved, "
            "(FrameBuf, Context)::fill_le_bytes, encode_fixed_size_frame and encode_with_fixed_block_size in both modes: 0, min-1, min, "
            "max, max+1, 2^8+k, 2^16+k, 2^32+k, usize::MAX for rate / channels / width / block size / frame number; fills of exactly, one "
            "more than and a channel more than the capacity; byte widths 0..6 against the declared width; lengths off by one; an "
            "out-of-range sample at a random position, or in EVERY block of a stream of up to 31 blocks (more failing blocks than the two workers have frame buffers), (far out, max+1, min-1, i32::MIN, i32::MAX) and the valid extremes max / min of the width. "
            "Verdict ok / err / panic / hang (15 s). Non-trivial = a rejection.")

PROPS["C17"] = {
    "coq": "theories/Props/C17.v",
    "theorems": ["C17_streaminfo_new", "C17_framebuf_with_size", "C17_fill_interleaved", "C17_fill_le_bytes_errors",
                 "C17_frame_entry", "C17_stream_entry", "C17_never_panics"],
    "streams": [API_STREAM], "rule": API_RULE,
    "oracle": api_oracle,
    "assumptions": ["the model lists the checks each entry point performs before working (tied by the API stream); widths 9/13/17/21/25 are neutral",
                    "a frame buffer whose channel count disagrees with the StreamInfo passed to encode_fixed_size_frame, and an empty frame "
                    "buffer, are outside the property's list and outside the grid"],
}


def ctor_cmp(o):
    return re.sub(r" hex=(big|len16777215:\S+)", " hex=BIG", o)


def ctor_oracle(pid, res, driver):
    """The property itself on the implementation's observation of every accepted construction."""
    findings = []
    data = res.stream_data.get("CTOR")
    if data:
        for prof, outs in data["impl"].items():
            for c, o in zip(data["cases"], outs):
                t = o.split(" ")
                verdict = t[1] if len(t) > 1 else "no-output"
                why = None
                if verdict in ("panic", "no-output", "hang"):
                    why = "constructor (or an accessor used to observe it) ended in %s" % verdict
                elif verdict == "ok":
                    kv = dict(x.split("=", 1) for x in t[2:] if "=" in x)
                    kind = c.split(" ")[2]
                    if kv.get("v") != "1":
                        why = "constructed component does not verify (v=%s)" % kv.get("v")
                    elif kind != "QP" and kv.get("w") != kv.get("cb"):
                        why = "count_bits=%s but serialisation gave %s" % (kv.get("cb"), kv.get("w"))
                    elif kind != "QP" and kv.get("p") != "same":
                        why = "parse-back: %s" % kv.get("p")
                if why:
                    findings.append({"case": c[:2000], "impl": o[:300], "profile": prof, "why": why})
    return findings


CTOR_STREAM = {"name": "CTOR", "quick": 6000, "thorough": 120000, "profiles": ["debug", "release"], "cmp": ctor_cmp,
               "nontrivial": lambda c, o: " ok " in o or o.endswith(" err")}
CTOR_RULE = ("CTOR: every public constructor (Residual, QuantizedParameters, Constant, Verbatim, FixedLpc, Lpc, FrameHeader, Frame, "
             "StreamInfo, MetadataBlockData::new_unknown) on half consistent, half deliberately inconsistent arguments: parameter count "
             "off by one, parameters 15/16/30/31/32/255, partition order 15/16/17/64 or disagreeing with the count, block size 0 / +1 / "
             "65536 / 2^40 / 2^62 / usize::MAX, list lengths that disagree, warm-up longer than a partition or than the block, non-zero "
             "warm-up quotient (1, k*2^(32-p0), 2^31) or remainder, remainder 2^15, quotients 65535/65536/100000, precision 0/16/17/32/64/2^20, shift -128..127, coefficient "
             "count off by one, coefficients one beyond the precision, order 0/25/32/33/100, widths 0/1/7/10/26..33/255/272/264/2^32+16, "
             "samples one beyond the width or i32::MIN/MAX, 0/32767/32768/40000/65536 verbatim samples, header block sizes over every code "
             "class (every 576*2^k and 256*2^k incl. those beyond the code tables, their neighbours, any size to 65535), 0, 32768, 65535, 65536, 2^32+64, channel counts 0/9/16/255, rates 0/655350/655351/10^6/2^32/2^32+44100/usize::MAX, "
             "frame numbers up to 2^32-1, start samples up to u64::MAX, frames whose subframe count / width / block size disagree with the "
             "header, metadata tags 0/127/128/255 and lengths 2^24-1, 2^24, 2^24+1. Observable: err / panic / ok with verify, count_bits, "
             "bits written, bytes, parse-back identical (Debug form). Non-trivial = accepted, or rejected by the outer constructor.")

PROPS["C18"] = {
    "coq": "theories/Props/C18.v",
    "theorems": ["C18_total", "C18_residual", "C18_qparams_verifies", "C18_subframes", "C18_frame_verifies",
                 "C18_streaminfo_verifies", "C18_verified_subframe_serialises", "C18_residual_parses_back", "C18_subframe_parses_back",
                 "C18_frame_parses_back", "C18_unknown_new_ok", "C18_stream_parses_back", "C18_frame_count_bits", "C18_stream_count_bits"],
    "streams": [CTOR_STREAM], "rule": CTOR_RULE,
    "oracle": ctor_oracle,
    "assumptions": ["PARTIAL: the serialisation and parse-back of frames, headers, stream info and metadata are validated by the "
                    "CTOR stream against the implementation and the parser model, not proved (residuals and subframes are proved)",
                    "FrameHeader::new still narrows bits_per_sample to u8 and sample_rate to u32 before looking at them (264 is taken as 8); "
                    "the result is self-consistent, so the property as stated holds; the model writes the casts out",
                    "QuantizedParameters has no serialisation of its own; identity of Stream is observed through re-serialised bytes "
                    "(Stream is not Debug)"],
}


def hist_oracle(pid, res, driver):
    """The property on the implementation: each call's bytes inside a history equal its bytes alone on a fresh thread."""
    findings = []
    data = res.stream_data.get("HIST")
    if data:
        for prof, outs in data["impl"].items():
            for c, o in zip(data["cases"], outs):
                m = re.match(r"^\S+ seq=(\S*) fresh=(\S*)$", o)
                if not m:
                    findings.append({"case": c[:3000], "impl": o[:300], "profile": prof, "why": "no result (panic / hang) for a call history"})
                    continue
                a, b = m.group(1).split(","), m.group(2).split(",")
                for k, (x, y) in enumerate(zip(a, b)):
                    if x != y:
                        findings.append({"case": c[:6000], "impl": o[:400], "profile": prof,
                                         "why": "call %d of the history gives %s, the same call alone on a fresh thread gives %s" % (k, x, y)})
                        break
    data = res.stream_data.get("SCR")
    if data:
        for prof, outs in data["impl"].items():
            for c, o in zip(data["cases"], outs):
                kind = c.split(" ")[2]
                if kind == "CACHE":
                    m = re.search(r" ok (\d+)/(\d+)$", o)
                    if not m or m.group(1) != m.group(2):
                        findings.append({"case": c[:2000], "impl": o[:200], "profile": prof,
                                         "why": "a cached window differs from the window computed from scratch"})
    return findings


HIST_STREAM = {"name": "HIST", "quick": 320, "thorough": 8000, "profiles": ["debug", "release"], "augment": True, "release_in_quick": False,
               "nontrivial": lambda c, o: c.count(" ;; ") >= 2 and "err" not in o, "memlimit_kb": 8000000}
SCR_STREAM = {"name": "SCR", "quick": 1500, "thorough": 40000, "profiles": ["debug", "release"],
              "nontrivial": lambda c, o: c.split(" ")[2] in ("RICE", "PLANES", "CACHE", "QERR")}
HIST_RULE = ("HIST: histories of 2..6 calls (1 in 40: a LONG history of 34..44 frame-level calls whose Tukey-window key (block size, alpha) differs in every call: shrinking, growing, shuffled block sizes or alpha moving by 2^-20) on one long-lived thread, each call one of: stream-level encode + write (single thread), the "
             "same multi-threaded with 2 workers, encode + parse + re-serialise, frame-level encode + write, a write into a failing sink, and - before a third of the calls - POISONING of every thread-local scratch storage with arbitrary contents of arbitrary sizes (hook poison_scratch: fixed-LPC planes, QLPC error buffer, mid/side buffer, Rice finder scratch, estimator float buffers, CRC scratch sinks); half of the histories are "
             "unrelated calls (ENC generator: 1-8 channels, widths 8..24, block sizes shrinking and growing over 32..1152, random verified "
             "configurations), half are the same call repeated with Tukey parameters closer than 2^-16 to each other (0, 2^-16, 0.1, 0.25, "
             "0.5, 0.75, 0.99998 plus 1e-6 .. 1.5e-5). Observable: FNV-1a of the bytes of every call inside the history and of the same call "
             "alone on a fresh thread; the model (no history) must give the same bytes. Non-trivial = three or more successful calls. "
             "SCR: the scratch clients on explicit stale contents through hooks: compute_error on a reused buffer holding arbitrary stale i32 values "
             "(QERR: orders 1..12, precision 2..15, shifts 0..15, signals small / 24-25 bit / exactly at the boundary maxabs * sum|coef| = 2^31 - 1 +- 2 between the i32 and the 64-bit path); PrcParameterFinder::find with stale errors / tables / ps / "
             "min_ps of length 0..70 (result and scratch left behind compared with the model), reset_fixed_lpc_errors on stale planes of "
             "0..300 lanes for signals of 0..256 samples incl. 15/16/17/31/32/33 (every lane compared), window-cache lookup sequences of 3..10 "
             "requests with near-equal parameters (cached vs direct), and window_fingerprint over ALL 1,065,353,217 parameter bit patterns "
             "0 ..= 0x3F800000 against the model's key function.")

PROPS["C10"] = {
    "coq": "theories/Props/C10.v",
    "theorems": ["C10_rice_finder_ignores_stale_scratch", "C10_fixed_planes_ignore_stale_scratch", "C10_window_cache_exact",
                 "C10_colliding_key_leaks", "C10_qlpc_buffer_ignores_stale_contents", "C10_ms_buffer_ignores_stale_contents"],
    "streams": [HIST_STREAM, SCR_STREAM], "rule": HIST_RULE,
    "oracle": hist_oracle,
    "assumptions": ["estimator float buffers and CRC scratch sinks: no stale-content theorem (the mid/side buffer has one, but its FrameBuf model has no hook of its own); covered by the HIST stream "
                    "with natural histories AND with arbitrary poisoned contents (poison_scratch hook) before calls",
                    "parse calls are exercised through encode + parse + re-serialise; other threads' histories through the multi-threaded call",
                    "the table scratch of the Rice finder is modelled by its active prefix tables[0..nparts] (the code never indexes beyond it)"],
}


def table_search(pid, res, harness_bin):
    """C02: when the sweep over the implementation's code tables no longer checks, find the block sizes / sample
    rates whose code does not mean (RFC 9639 9.1.1/9.1.2) the value it was asked for, and build inputs that use them."""
    out = fv.sh([harness_bin, "dump"], timeout=600).stdout
    cfgd = re.search(r"^cfgdefault (\S+)", out, re.M).group(1)
    cfgd = re.sub(r"mt=1", "mt=0", cfgd)
    bad_blocks, bad_rates = [], []
    for line in out.split("\n"):
        t = line.split()
        if len(t) > 2 and t[0] == "table" and t[1] == "block_size":
            for i, e in enumerate(t[2:]):
                n, e = i + 1, int(e)
                tag, xb, xv = e >> 24, (e >> 16) & 255, e & 65535
                mean = None
                if tag == 1: mean = 192
                elif 2 <= tag <= 5: mean = 576 << (tag - 2)
                elif tag == 6 and xb == 8: mean = xv + 1
                elif tag == 7 and xb == 16: mean = xv + 1
                elif 8 <= tag <= 15: mean = 256 << (tag - 8)
                if mean != n:
                    bad_blocks.append(n)
        if len(t) > 2 and t[0] == "table" and t[1] == "sample_rate":
            for i, e in enumerate(t[2:]):
                f, e = i + 1, int(e)
                tag, xb, xv = e >> 24, (e >> 16) & 255, e & 65535
                std = {1: 88200, 2: 176400, 3: 192000, 4: 8000, 5: 16000, 6: 22050, 7: 24000, 8: 32000, 9: 44100, 10: 48000, 11: 96000}
                mean = None
                if tag == 0: mean = f          # "from STREAMINFO"
                elif tag in std: mean = std[tag]
                elif tag == 12 and xb == 8: mean = xv * 1000
                elif tag == 13 and xb == 16: mean = xv
                elif tag == 14 and xb == 16: mean = xv * 10
                if mean != f:
                    bad_rates.append(f)
    cases = []
    ramp = lambda n: ",".join(str(((7 * k) % 201) - 100) for k in range(n))
    for j, n in enumerate(bad_blocks[:6]):
        if n >= 32:
            cases.append("ENC tb%d %s 44100 1 16 %d %s" % (j, re.sub(r"bs=\d+", "bs=%d" % n, cfgd), n, ramp(n + 7)))
        else:
            cases.append("ENC tb%d %s 44100 1 16 64 %s" % (j, re.sub(r"bs=\d+", "bs=64", cfgd), ramp(64 + n)))
    for j, f in enumerate(bad_rates[:6]):
        cases.append("ENC tr%d %s %d 1 16 64 %s" % (j, re.sub(r"bs=\d+", "bs=64", cfgd), f, ramp(70)))
    res.extra["table_mismatches"] = {"block_sizes": bad_blocks[:20], "sample_rates": bad_rates[:20]}
    return {"ENC": cases}


def c02_search(pid, res, harness_bin):
    """table_search plus blocks aimed at the Rice partition rules: LPC orders 16..24 in blocks of order * 2^k samples whose
    level changes every `order` samples (the finest partitioning is then the cheapest)."""
    extra = table_search(pid, res, harness_bin)
    out = fv.sh([harness_bin, "dump"], timeout=600).stdout
    cfgd = re.search(r"^cfgdefault (\S+)", out, re.M).group(1)
    def cfg(bs, **kw):
        c = re.sub(r"bs=\d+", "bs=%d" % bs, cfgd)
        for k, v in dict(mt=0, **kw).items():
            c = re.sub(r"(^|;)%s=[^;]*" % k, lambda m: "%s%s=%s" % (m.group(1), k, v), c)
        return c
    cases = []
    j = 0
    for lo in (16, 17, 20, 24, 8, 12):
        for k in (4, 6, 7, 8):
            bs = lo * (1 << k)
            if not (32 <= bs <= 32767):
                continue
            for uf in (0, 1):
                x = 777 + lo * 31 + k
                vals = []
                for t in range(bs):
                    x = (x * 1103515245 + 12345) & 0x7FFFFFFF
                    amp = 6000 if (t // lo) % 2 == 0 else 2
                    vals.append(((x >> 8) % (2 * amp + 1)) - amp + int(3000 * ((t % 50) / 25.0 - 1)))
                cases.append("ENC tp%d %s 44100 1 16 %d %s" % (j, cfg(bs, lo=lo, uf=uf, ul=1, qp=15), bs, ",".join(map(str, vals))))
                j += 1
    extra["ENC"] = extra.get("ENC", []) + cases
    return extra


def feat_oracle(pid, res, driver):
    """Cross-build comparison: outputs and estimator (oracle) values of every feature build are identical."""
    findings = []
    for sn in ("DLV",):
        d2 = res.stream_data.get(sn)
        if d2 and "release" in d2["impl"]:
            for p in [q for q in d2["impl"] if ":" in q]:
                for c, a, b in zip(d2["cases"], d2["impl"]["release"], d2["impl"][p]):
                    if a != b:
                        findings.append({"case": c[:2000], "impl": b[:300], "reference": a[:300], "profile": p,
                                         "why": "%s output of feature build %s differs from the default build" % (sn, p.split(":")[1])})
    data = res.stream_data.get("ENC")
    if not data:
        return findings
    ref_name = "release"
    ref = data["impl"].get(ref_name)
    builds = [p for p in data["impl"] if ":" in p]
    res.extra["feature_builds"] = [ref_name + ":fdefault"] + builds
    for p in builds:
        for c, a, b in zip(data["cases"], ref, data["impl"][p]):
            if a != b:
                findings.append({"case": c[:2000], "impl": b[:300], "reference": a[:300], "profile": p,
                                 "why": "output of feature build %s differs from the default build" % p.split(":")[1]})
    # estimator outputs (hooks) per build
    bins = getattr(res, "bins", {})
    if ref_name in bins:
        ref_aug = fv.run_lines([bins[ref_name], "augment"], data["cases"], timeout=1500, key_index=1)
        n = 0
        for p in builds:
            aug = fv.run_lines([bins[p], "augment"], data["cases"], timeout=1500, key_index=1)
            for c, a, b in zip(data["cases"], ref_aug, aug):
                n += 1
                if a != b:
                    findings.append({"case": c[:2000], "impl": b[-300:], "reference": a[-300:], "profile": p,
                                     "why": "estimator outputs (entropy / quantised LPC hooks) of feature build %s differ" % p.split(":")[1]})
        res.extra["estimator_comparisons"] = n
    return findings


PROPS["C20"] = {
    "coq": "theories/Props/C20.v",
    "theorems": ["C20_threading_fields_irrelevant", "C20_verify_feature_independent", "C20_verify_ignores_threading"],
    "streams": "FEAT", "rule": "ENC+DLV",
    "oracle": feat_oracle,
    "assumptions": ["the estimators under cfg(feature = \"experimental\") are floating-point code behind the model's oracles: their agreement "
                    "across the four builds ({}, default, decode, default+experimental) is compared on every case, not proved",
                    "feature sets follow the project's CI matrix; simd-nightly and mimalloc need a nightly toolchain / allocator crate and are not built"],
}


def check_coq(pid, spec, res):
    """Build the proofs; returns True when the property's theorems are all checked."""
    closure = fv.dep_closure(spec["coq"])
    res.obligations, per = fv.count_obligations(closure)
    res.checker_cmd = "cd /verif/coq && make %s (coq_makefile, full .vo build) ; coqc Props file for Print Assumptions" % spec["coq"].replace(".v", ".vo")
    ok, out = fv.build_coq(spec["coq"].replace(".v", ".vo"))
    bad = fv.forbidden_scan()
    if bad:
        res.violations.append({"kind": "forbidden-construct", "detail": "\n".join(bad[:20]), "has_input": False,
                               "no_longer_checks": "development contains an axiom/admit/unsafe flag"})
    if not ok:
        m = re.search(r'File "\./([^"]+)", line (\d+)', out)
        where = "%s:%s" % (m.group(1), m.group(2)) if m else spec["coq"]
        res.proof_failure = {"kind": "proof-broken", "detail": out[-3000:], "has_input": False,
                             "no_longer_checks": "Coq build of %s fails at %s" % (spec["coq"], where)}
        # discharged: obligations in files whose .vo is up to date
        d = 0
        for v, c in per.items():
            vo = os.path.join(fv.COQ, v[:-2] + ".vo")
            if os.path.exists(vo) and os.path.getmtime(vo) >= os.path.getmtime(os.path.join(fv.COQ, v)):
                d += c
        res.discharged = d
        return False
    ok2, pa = fv.print_assumptions(spec["coq"])
    res.assumptions_text = pa
    closed = pa.count("Closed under the global context")
    if not ok2 or closed < len(spec["theorems"]):
        allowed = spec.get("allowed_axioms", [])
        body = pa
        unknown = []
        for line in body.split("\n"):
            mm = re.match(r"^([A-Za-z_][\w.']*)\s*:", line)
            if mm and mm.group(1) not in allowed:
                unknown.append(mm.group(1))
        if not ok2 or unknown:
            res.violations.append({"kind": "assumptions", "detail": pa[-2000:], "has_input": False,
                                   "no_longer_checks": "Print Assumptions of %s not closed: %s" % (spec["coq"], unknown)})
            res.discharged = res.obligations - len(spec["theorems"])
            return False
    res.discharged = res.obligations
    return True


def coqchk(pid, spec, res):
    """Thorough tier: re-check the compiled property file and everything it depends on with the independent checker."""
    mod = "FV." + spec["coq"].replace("theories/", "").replace(".v", "").replace("/", ".")
    p = fv.sh(["timeout", "3000", "coqchk", "-o", "-silent", "-Q", "theories", "FV", mod], cwd=fv.COQ, check=False, timeout=3100)
    out = p.stdout
    res.extra["coqchk_cmd"] = "cd /verif/coq && coqchk -o -silent -Q theories FV " + mod
    if p.returncode == 124:
        res.extra["coqchk"] = "timeout after 3000 s (not a verdict)"
        return
    m = re.search(r"\* Axioms:\s*(.*?)(?:\n\s*\*|\Z)", out, re.S)
    axioms = m.group(1).strip() if m else "?"
    res.extra["coqchk"] = {"returncode": p.returncode, "axioms": axioms[:500]}
    if p.returncode != 0 or axioms != "<none>":
        res.violations.append({"kind": "coqchk", "detail": out[-2000:], "has_input": False,
                               "no_longer_checks": "coqchk of %s: rc=%d axioms=%s" % (mod, p.returncode, axioms[:200])})


def run_streams(pid, spec, tier, seed, res, replay_cases=None):
    """Correspondence: implementation vs extracted model on the same cases."""
    driver = fv.build_driver()
    bins = {}
    for st in spec["streams"]:
        for prof in st["profiles"]:
            if prof == "release" and tier == "quick" and not st.get("release_in_quick", True):
                continue
            if prof not in bins:
                bins[prof] = fv.build_harness(*prof.split(":")) if ":" in prof else fv.build_harness(prof)
    res.bins = bins
    dist = {}
    disagreements = []
    seen = set()
    for st in spec["streams"]:
        n = st[tier]
        genv = dict(fv.ENV)
        genv.update(st.get("gen_env", {}))
        if tier == "thorough":
            genv.update(st.get("thorough_env", {}))
        cases = list(replay_cases) if replay_cases is not None else \
            fv.corpus_cases(st["name"]) + fv.gen_cases(bins["debug"], st["name"], seed, n, env=genv)
        if replay_cases is None:
            cases = getattr(res, "extra_cases", {}).get(st["name"], []) + cases
        cases = [c for c in cases if c.split(" ", 1)[0] == st["name"]]
        if not cases:
            continue
        model_in = cases
        pre_impl = None
        if st.get("augment"):
            aug = fv.run_lines([bins["debug"], "augment"], cases, timeout=st.get("timeout", 1500), key_index=1)
            model_in = aug
        if st.get("model_from_impl"):
            pre_impl = fv.run_lines(bins["debug"], cases, timeout=st.get("timeout", 1500), shards=st.get("shards", fv.NPROC))
            model_in = [st["model_from_impl"](c, o) for c, o in zip(cases, pre_impl)]
        model_out = fv.run_lines([driver], model_in, timeout=st.get("timeout", 1500))
        res.stream_data[st["name"]] = {"cases": cases, "impl": {}, "model": model_out}
        for prof in st["profiles"]:
            if prof not in bins:
                continue
            if pre_impl is not None and prof == "debug":
                impl_out = pre_impl
            else:
                impl_out = fv.run_lines(bins[prof], cases, timeout=st.get("timeout", 1500),
                                        memlimit_kb=st.get("memlimit_kb"), shards=st.get("shards", fv.NPROC))
            res.evaluations += len(cases)
            res.stream_data[st["name"]]["impl"][prof] = impl_out
            for c, io, mo in zip(cases, impl_out, model_out):
                if prof == "debug":
                    key = fv.sha(c.split(" ", 2)[2] if c.count(" ") >= 2 else c)
                    if key not in seen:
                        seen.add(key)
                        if st["nontrivial"](c, io):
                            res.distinct_nontrivial += 1
                            if len(res.samples) < 6:
                                res.samples.append({"case": c[:400], "impl": io[:300]})
                    kind = (io.split(" ") + ["?", "?"])[1].split("=")[0][:24]
                    dist[st["name"] + ":" + kind] = dist.get(st["name"] + ":" + kind, 0) + 1
                cmpf = st.get("cmp")
                cmpm = st.get("cmp_model", cmpf)
                if mo.endswith("model-not-consulted"):
                    continue     # targeted-search cases judged by the property oracle on the implementation alone
                if (cmpf(io) != cmpm(mo)) if cmpf else (io != mo):
                    disagreements.append({"stream": st["name"], "profile": prof, "case": c, "impl": io, "model": mo})
    res.extra["distribution"] = dist
    res.disagreements = len(disagreements)
    return disagreements


def run_check(pid, spec, tier, seed, replay):
    spec = dict(spec)
    if spec.get("streams") == "ENC":
        spec["streams"] = [dict(ENC_STREAM)]
    if spec.get("streams") == "FEAT":
        st = dict(ENC_STREAM)
        st["profiles"] = ["debug", "release", "release:fnone", "release:fdecode_only", "release:fexperimental"]
        st["release_in_quick"] = True
        st["quick"] = min(st["quick"], 400)
        st2 = dict(DLV_STREAM)
        st2["profiles"] = list(st["profiles"])
        st2["release_in_quick"] = True
        st2["quick"] = min(st2["quick"], 200)
        st2["gen_env"] = {"VERIF_DLV_LYING_HINT": "1"}
        spec["streams"] = [st, st2]
    if spec.get("streams") == "ENC+CNT":
        spec["streams"] = [dict(ENC_STREAM), dict(CNT_STREAM)]
    if spec.get("streams") == "ENC+CNT0":
        spec["streams"] = [dict(ENC_STREAM), dict(CNT_STREAM, quick=0, thorough=0, profiles=["debug"])]
    if spec.get("streams") == "ENC+DLV":
        spec["streams"] = [dict(ENC_STREAM), dict(DLV_STREAM)]
    if spec.get("streams") == "SRC+DLV":
        spec["streams"] = [dict(SRC_STREAM), dict(DLV_STREAM)]
        spec["rule"] = spec["rule"] + DLV_RULE
    if spec.get("streams") == "CFG+ENC":
        spec["streams"] = [dict(CFG_STREAM), dict(ENC_STREAM)]
        spec["rule"] = CFG_RULE + " " + ENC_RULE
    if spec.get("streams") == "PAR+DLV":
        spec["streams"] = [dict(PAR_STREAM), dict(DLV_STREAM)]
        spec["rule"] = PAR_RULE + DLV_RULE
    if spec.get("streams") == "DLV":
        spec["streams"] = [dict(DLV_STREAM)]
    if spec.get("rule") == "ENC+DLV":
        spec["rule"] = ENC_RULE + DLV_RULE
    if spec.get("rule") == "DLV":
        spec["rule"] = DLV_RULE
    if spec.get("rule") == "ENC":
        spec["rule"] = ENC_RULE
    if spec.get("rule") == "ENC+CNT0":
        spec["rule"] = ENC_RULE + (" CNT (targeted, every run): 8 loud 24-bit blocks (8192..32767 samples, 1-2 channels) encoded with Rice parameter 0 and "
                                   "the order-0 fixed predictor only, whose quotient sums lie just above / below 2^32; frame lengths measured with a "
                                   "counting sink (implementation only; the model is not consulted) against the verbatim frame size.")
    if spec.get("rule") == "ENC+CNT":
        spec["rule"] = ENC_RULE + " CNT: directly constructed residuals (partition order 0..4, partition sizes 1..65, parameters 0..14, up to 3 quotients of 2^28..2^32-1 so sums cross 2^32; 1 in 10 with a non-empty warm-up slot, which Residual::new must refuse; written through a counting sink) and frame headers (every block-size / sample-rate code class, frame numbers to 2^31-1, start samples to 2^36-1, half of them drawn uniformly from one length class of the coded number, through both MemSink types), and streams with 0..4 further metadata blocks of 0..500 payload bytes (kind M). Non-trivial = residual > 200 bits or number > 127."
    res = Result(pid)
    res.rule = spec.get("rule", "")
    res.assumptions = spec.get("assumptions", [])
    res.proof_failure = None
    # (1)+(2) harness build and Generated.v
    dbg = fv.build_harness("debug")
    translate.regenerate(dbg)
    # (3) proofs
    proofs_ok = check_coq(pid, spec, res)
    if not proofs_ok and spec.get("search"):
        # a proof obligation broke: derive targeted cases from what changed and let the oracle look at them
        try:
            res.extra_cases = spec["search"](pid, res, dbg)
            res.extra["targeted_cases"] = {k: len(v) for k, v in res.extra_cases.items()}
        except Exception as e:   # the search is best effort
            res.extra["targeted_cases_error"] = str(e)[:300]
    if not replay and spec.get("always_cases"):
        try:
            extra = spec["always_cases"](dbg)
            merged = dict(getattr(res, "extra_cases", {}) or {})
            for k, v in extra.items():
                merged[k] = merged.get(k, []) + v
            res.extra_cases = merged
            res.extra["always_targeted_cases"] = {k: len(v) for k, v in extra.items()}
        except Exception as e:
            res.extra["always_targeted_cases_error"] = str(e)[:300]
    if tier == "thorough" and not replay and spec.get("thorough_cases"):
        # the thorough tier always runs the targeted families (in quick they run only after a break)
        try:
            extra = spec["thorough_cases"](dbg)
            merged = dict(getattr(res, "extra_cases", {}) or {})
            for k, v in extra.items():
                merged[k] = merged.get(k, []) + v
            res.extra_cases = merged
            res.extra["thorough_targeted_cases"] = {k: len(v) for k, v in extra.items()}
        except Exception as e:
            res.extra["thorough_targeted_cases_error"] = str(e)[:300]
    if proofs_ok and tier == "thorough" and not replay:
        coqchk(pid, spec, res)
    # (4)+(5) correspondence
    replay_cases = None
    if replay:
        rp = json.load(open(replay))
        replay_cases = rp.get("cases") or [rp["case"]]
    disagreements = []
    try:
        disagreements = run_streams(pid, spec, tier, seed, res, replay_cases)
    except fv.CheckError as e:
        res.violations.append({"kind": "correspondence-infrastructure", "detail": str(e)[-3000:], "has_input": False,
                               "no_longer_checks": "extraction/driver/harness for %s" % pid})
    # (6) property oracle on the implementation's outputs (independent of the diff)
    kf = fv.known_findings()
    found_input = False
    prop_oracle = spec.get("oracle")
    if prop_oracle:
        try:
            findings = prop_oracle(pid, res, fv.build_driver())
        except fv.CheckError as e:
            findings = []
            res.violations.append({"kind": "oracle-infrastructure", "detail": str(e)[-2000:], "has_input": False,
                                   "no_longer_checks": "property oracle of %s" % pid})
        for fd in findings:
            hit = None
            for k in kf.get("known", []):
                if k["property"] == pid and re.search(k["case_regex"], fd["case"]) and re.search(k.get("impl_regex", ""), fd.get("impl", "")):
                    hit = k; break
            if hit:
                msg = "%s (%s)" % (hit["id"], hit["what"])
                if msg not in res.known_hits:
                    res.known_hits.append(msg)
                continue
            found_input = True
            if len([v for v in res.violations if v.get("kind") == "counterexample"]) < 5:
                res.violations.append(dict(fd, kind="counterexample", has_input=True))
    diff_is_violation = spec.get("diff_is_violation", False)
    for d in disagreements[:200]:
        cls = {"violates": diff_is_violation,
               "why": "implementation output differs from the proved model" + (" on an observable the property constrains" if diff_is_violation else
                      "; the property oracle found no failing input among the explored cases")}
        hit = None
        for k in kf.get("known", []):
            if k["property"] == pid and re.search(k["case_regex"], d["case"]) and re.search(k.get("impl_regex", ""), d["impl"]):
                hit = k; break
        if hit:
            msg = "%s (%s)" % (hit["id"], hit["what"])
            if msg not in res.known_hits:
                res.known_hits.append(msg)
            continue
        if cls["violates"]:
            found_input = True
            if len([v for v in res.violations if v.get("kind") == "counterexample"]) < 5:
                res.violations.append({"kind": "counterexample", "has_input": True, "why": cls["why"], **d})
        elif not found_input:
            if len([v for v in res.violations if v.get("kind") == "correspondence"]) < 3:
                res.violations.append({"kind": "correspondence", "has_input": False, "why": cls["why"],
                                       "no_longer_checks": "correspondence stream %s" % d["stream"], **d})
    if not found_input and (disagreements or res.proof_failure is not None) and spec.get("post_search"):
        # the model and the implementation no longer agree but no explored case violates the property itself:
        # look for one with inputs aimed at what the property is about
        try:
            extra = spec["post_search"](pid, res)
        except Exception as e:   # best effort
            extra = []
            res.extra["post_search_error"] = str(e)[:300]
        res.extra["post_search_findings"] = len(extra)
        if extra:
            found_input = True
            res.violations = [v for v in res.violations if v.get("kind") != "correspondence"]
            for fd in extra[:2]:
                res.violations.append(dict(fd, kind="counterexample", has_input=True))
    if res.proof_failure is not None and not found_input:
        res.violations.append(res.proof_failure)
    elif res.proof_failure is not None:
        # a concrete failing input was found; mention the broken proof in the first counterexample
        res.violations[0]["proof_also_broken"] = res.proof_failure["no_longer_checks"]
    return res


# ----------------------------------------------------------------------------------------
# ENC-based property oracles: the implementation's bytes are decoded by the extracted,
# independent RFC 9639 decoder (Model/Flac.v) and compared with the raw input.

import hashlib


def parse_enc_case(c):
    t = c.split(" | ")[0].split(" ")
    if t[0] == "DLV":
        t = t[:2] + t[3:]
    cfg = dict(kv.split("=") for kv in t[2].split(";"))
    samples = [] if t[7] == "-" else [int(x) for x in t[7].split(",")]
    return {"id": t[1], "cfg": cfg, "rate": int(t[3]), "ch": int(t[4]), "bps": int(t[5]), "bs": int(t[6]), "samples": samples}


def utf8len(v):
    for k, lim in enumerate([1 << 7, 1 << 11, 1 << 16, 1 << 21, 1 << 26, 1 << 31, 1 << 36]):
        if v < lim:
            return k + 1
    return 7


def header_bytes(block, rate, number):
    named_b = {192, 576, 1152, 2304, 4608, 256, 512, 1024, 2048, 4096, 8192, 16384, 32768}
    xb = 0 if block in named_b else (1 if block <= 256 else 2)
    named_r = {88200, 176400, 192000, 8000, 16000, 22050, 24000, 32000, 44100, 48000, 96000}
    if rate in named_r: xr = 0
    elif rate % 1000 == 0 and rate // 1000 <= 255: xr = 1
    elif rate % 10 == 0 and rate // 10 <= 65535: xr = 2
    elif rate <= 65535: xr = 2
    else: xr = 0
    return 4 + utf8len(number) + xb + xr + 1


def md5_of(bps, samples):
    nb = (bps + 7) // 8
    h = hashlib.md5()
    h.update(b"".join((x & 0xFFFFFFFF).to_bytes(4, "little")[:nb] for x in samples))
    return h.hexdigest()


def enc_oracle(pid, res, driver, stream="ENC"):
    data = res.stream_data.get(stream)
    if not data:
        return []
    cases, impl = data["cases"], data["impl"].get("debug", [])
    dec_in, idx = [], {}
    findings = []
    for c, o in zip(cases, impl):
        t = o.split(" ")
        if len(t) >= 2 and t[1] == "ok":
            dec_in.append("DEC %s %s" % (t[0], t[-1]))
        idx[t[0]] = (c, o)
    dec_out = fv.run_lines([driver], dec_in, timeout=1500)
    dec = {d.split(" ", 1)[0]: d for d in dec_out}
    checked = 0
    for c, o in zip(cases, impl):
        pc = parse_enc_case(c)
        t = o.split(" ")
        short = {"case": c, "impl": o[:400]}
        if len(t) < 2 or t[1] != "ok":
            if pid in ("C01", "C07"):
                findings.append(dict(short, why="valid input and verified configuration were not encoded: %s" % " ".join(t[1:3])))
            continue
        d = dec.get(t[0], "")
        dt = d.split(" ")
        checked += 1
        n = len(pc["samples"]) // pc["ch"]
        if len(dt) < 2 or dt[1] != "ok":
            if pid in ("C01", "C02", "C03", "C04", "C07"):
                findings.append(dict(short, why="the independent strict decoder (extracted Flac.decode_stream), which cross-checks STREAMINFO against "
                                                "the decoded frames, rejects the emitted stream: %s" % d[:80]))
            continue
        f = dict(kv.split("=") for kv in dt[2:12])
        samples = [] if dt[12] == "-" else [int(x) for x in dt[12].split(",")]
        lens = [] if f["lens"] in ("-", "?") else [int(x) for x in f["lens"].split(",")]
        if pid in ("C01", "C07"):
            if samples != pc["samples"] or int(f["rate"]) != pc["rate"] or int(f["ch"]) != pc["ch"] or int(f["bps"]) != pc["bps"] or int(f["total"]) != n:
                findings.append(dict(short, why="decoded audio/format differs from the input (first diff at %s)" % next((i for i, (a, b) in enumerate(zip(samples, pc["samples"])) if a != b), "length/format")))
        elif pid == "C03":
            exp = md5_of(pc["bps"], pc["samples"])
            if int(f["rate"]) != pc["rate"] or int(f["ch"]) != pc["ch"] or int(f["bps"]) != pc["bps"] or int(f["total"]) != n or f["md5"].replace("-", "") != exp:
                findings.append(dict(short, why="STREAMINFO %s does not state the input (expected total=%d md5=%s)" % (f, n, exp)))
        elif pid == "C04":
            if lens:
                ok = int(f["maxb"]) == pc["bs"] and int(f["minb"]) >= 16 and int(f["minb"]) <= pc["bs"] and int(f["minf"]) == min(lens) and int(f["maxf"]) == max(lens)
                if not ok:
                    findings.append(dict(short, why="STREAMINFO bounds %s vs block size %d and frame lengths min=%d max=%d" % (f, pc["bs"], min(lens), max(lens))))
        if pid == "C02" and len(t) > 2:
            # RFC 9639 9.2.7: the partition count divides the block and (block size >> partition order) is LARGER than the
            # predictor order (every partition holds at least one residual); read off the emitted subframes
            bad = None
            for i, fr in enumerate(t[2].split("/") if t[2] != "-" else []):
                blk = pc["bs"] if (i + 1) * pc["bs"] <= n else n - i * pc["bs"]
                for sub in fr.split(":", 1)[-1].split(","):
                    mm = re.match(r"[FL](\d+)p(\d+)$", sub)
                    if mm:
                        o_, po = int(mm.group(1)), int(mm.group(2))
                        if blk % (1 << po) != 0 or (blk >> po) <= o_:
                            bad = (i, sub, blk)
            if bad:
                findings.append(dict(short, why="frame %d: subframe %s in a block of %d samples: (block >> partition order) is not larger than the predictor order (RFC 9639 9.2.7)" % bad))
        if pid == "C09":
            for i, L in enumerate(lens):
                blk = pc["bs"] if (i + 1) * pc["bs"] <= n else n - i * pc["bs"]
                verb = header_bytes(blk, pc["rate"], i) + (pc["ch"] * (8 + pc["bps"] * blk) + 7) // 8 + 2
                if L > verb + 2 * pc["ch"]:
                    findings.append(dict(short, why="frame %d has %d bytes > verbatim %d + 2 per channel" % (i, L, verb)))
                    break
            raw = len(pc["samples"]) * ((pc["bps"] + 7) // 8)
        elif pid == "C08":
            m = re.search(r"cb=(\d+)", o)
            if m and int(m.group(1)) != 4 * len(t[-1]):
                findings.append(dict(short, why="Stream::count_bits=%s but %d bits were written" % (m.group(1), 4 * len(t[-1]))))
    res.extra["oracle_checked"] = checked
    return findings


def nontrivial_enc(case, out):
    t = out.split(" ")
    return len(t) > 2 and t[1] == "ok" and ("F" in t[2] or "L" in t[2])


ENC_STREAM = {"name": "ENC", "quick": 700, "thorough": 12000, "profiles": ["debug", "release"], "augment": True,
              "nontrivial": nontrivial_enc, "memlimit_kb": 6000000, "release_in_quick": False}
ENC_RULE = ("ENC: whole-stream single-thread encoding of generated inputs (signal grammar: silence, DC, full-scale, "
            "alternating sign, impulses, noise at several levels, sinusoids, ramps, narrow-band AR, quadratic-residue, "
            "sparse; correlated/anti-correlated stereo; concatenations), widths 8/12/16/20/24, 1-8 channels, block sizes "
            "32..1152 incl. boundaries (1 case in 64: a LARGE block of 2304..32767 samples), 0-3 full blocks plus tails 0/1/15/16/17/random, all rate code classes, random "
            "verified configurations over all fields. Observable: every byte of the stream, per-frame subframe kinds/orders, "
            "count_bits. Non-trivial = at least one Fixed/LPC subframe; distinct = distinct case text.")
