"""Per-property check specifications and the common check skeleton."""
import json, os, re, time
import fv
import translate

TRUSTED_BASE = [
    "Coq 8.16.1 kernel (coqc; vm_compute used for finite sweeps/examples; no native_compute)",
    "no axioms declared; Print Assumptions must report 'Closed under the global context' (allow-list otherwise)",
    "extraction to OCaml with ExtrOcamlBasic only (bool, option, unit, list, prod, sumbool, sumor); N/Z/positive/nat stay inductive",
    "OCaml 4.13.1 + ocaml/driver.ml + ocaml/conv.ml (case parsing, number conversion)",
    "Rust harness /verif/harness (case generation, calling the crate built from /repo with --cfg flacenc_verif)",
    "tools/translate.py (Generated.v from the compiled crate's dump and a source scan)",
    "tools/fv.py, tools/props.py (orchestration, diffing)",
]


class Result:
    def __init__(self, pid):
        self.pid = pid
        self.violations = []
        self.known_hits = []
        self.obligations = 0
        self.discharged = 0
        self.evaluations = 0
        self.distinct_nontrivial = 0
        self.disagreements = 0
        self.samples = []
        self.rule = ""
        self.assumptions_text = ""
        self.extra = {}
        self.assumptions = []
        self.checker_cmd = ""

    def evidence(self, tier, seed, wall):
        cov = {
            "obligations": self.obligations,
            "discharged": self.discharged,
            "checker_cmd": self.checker_cmd or "make (coqc 8.16.1) on the property's .vo closure",
            "trusted_base": TRUSTED_BASE,
            "evaluations": self.evaluations,
            "distinct_nontrivial": self.distinct_nontrivial,
            "rule": self.rule,
            "samples": self.samples[:8] if self.samples else ["(no case evaluated)"],
            "disagreements_checked": self.disagreements,
            "print_assumptions": self.assumptions_text[-3000:],
        }
        cov.update(self.extra)
        return {
            "property_id": self.pid, "tier": tier, "seed": seed, "level": "proof",
            "coverage": cov, "assumptions": self.assumptions, "wall_s": round(wall, 2),
            "violations": len(self.violations),
        }


# ----------------------------------------------------------------------------------------

def nontrivial_sink(case, out):
    # non-trivial: at least 3 operations and the bit string crosses a 64-bit word boundary
    toks = case.split(" ")[3:]
    m = re.match(r"\S+ ok (\d+)", out)
    return len(toks) >= 3 and m is not None and int(m.group(1)) > 64


PROPS = {
    "C11": {
        "coq": "theories/Props/C11.v",
        "theorems": ["C11_sink_refines_ideal", "C11_user_sink_receives_ideal", "C11_bits_view"],
        "streams": [{"name": "SINK", "quick": 6000, "thorough": 120000, "profiles": ["debug", "release"],
                     "nontrivial": nontrivial_sink}],
        "rule": "SINK: random operation sequences (1..12 ops after a random 0..63-bit offset) over MemSink<u8>, "
                "MemSink<u64> and a user sink with only the required methods; every operand width, bit counts "
                "0..=width, value classes 0/all-ones/single-bit/random, zero runs up to 300, alignment, byte "
                "slices. Non-trivial = >=3 ops and final length > 64 bits; distinct = distinct case text.",
        "assumptions": ["model of bitsink.rs is hand-written; tied by SINK correspondence (debug+release)",
                        "operand widths are the four sealed Bits types; bit counts n <= width (n > width is a caller bug that panics)"],
    },
}


def check_coq(pid, spec, res):
    """Build the proofs; returns True when the property's theorems are all checked."""
    closure = fv.dep_closure(spec["coq"])
    res.obligations, per = fv.count_obligations(closure)
    res.checker_cmd = "cd /verif/coq && make %s (coq_makefile, full .vo build) ; coqc Props file for Print Assumptions" % spec["coq"].replace(".v", ".vo")
    ok, out = fv.build_coq(spec["coq"].replace(".v", ".vo"))
    bad = fv.forbidden_scan()
    if bad:
        res.violations.append({"kind": "forbidden-construct", "detail": "\n".join(bad[:20]), "has_input": False,
                               "no_longer_checks": "development contains an axiom/admit/unsafe flag"})
    if not ok:
        m = re.search(r'File "\./([^"]+)", line (\d+)', out)
        where = "%s:%s" % (m.group(1), m.group(2)) if m else spec["coq"]
        res.proof_failure = {"kind": "proof-broken", "detail": out[-3000:], "has_input": False,
                             "no_longer_checks": "Coq build of %s fails at %s" % (spec["coq"], where)}
        # discharged: obligations in files whose .vo is up to date
        d = 0
        for v, c in per.items():
            vo = os.path.join(fv.COQ, v[:-2] + ".vo")
            if os.path.exists(vo) and os.path.getmtime(vo) >= os.path.getmtime(os.path.join(fv.COQ, v)):
                d += c
        res.discharged = d
        return False
    ok2, pa = fv.print_assumptions(spec["coq"])
    res.assumptions_text = pa
    closed = pa.count("Closed under the global context")
    if not ok2 or closed < len(spec["theorems"]):
        allowed = spec.get("allowed_axioms", [])
        body = pa
        unknown = []
        for line in body.split("\n"):
            mm = re.match(r"^([A-Za-z_][\w.']*)\s*:", line)
            if mm and mm.group(1) not in allowed:
                unknown.append(mm.group(1))
        if not ok2 or unknown:
            res.violations.append({"kind": "assumptions", "detail": pa[-2000:], "has_input": False,
                                   "no_longer_checks": "Print Assumptions of %s not closed: %s" % (spec["coq"], unknown)})
            res.discharged = res.obligations - len(spec["theorems"])
            return False
    res.discharged = res.obligations
    return True


def run_streams(pid, spec, tier, seed, res, replay_cases=None):
    """Correspondence: implementation vs extracted model on the same cases."""
    driver = fv.build_driver()
    bins = {}
    for st in spec["streams"]:
        for prof in st["profiles"]:
            if prof == "release" and tier == "quick" and not st.get("release_in_quick", True):
                continue
            if prof not in bins:
                bins[prof] = fv.build_harness(prof)
    dist = {}
    disagreements = []
    seen = set()
    for st in spec["streams"]:
        n = st[tier]
        cases = list(replay_cases) if replay_cases is not None else \
            fv.corpus_cases(st["name"]) + fv.gen_cases(bins["debug"], st["name"], seed, n)
        cases = [c for c in cases if c.split(" ", 1)[0] == st["name"]]
        if not cases:
            continue
        model_out = fv.run_lines([driver], cases, timeout=st.get("timeout", 1500))
        for prof in st["profiles"]:
            if prof not in bins:
                continue
            impl_out = fv.run_lines(bins[prof], cases, timeout=st.get("timeout", 1500),
                                    memlimit_kb=st.get("memlimit_kb"))
            res.evaluations += len(cases)
            for c, io, mo in zip(cases, impl_out, model_out):
                if prof == "debug":
                    key = fv.sha(c.split(" ", 2)[2] if c.count(" ") >= 2 else c)
                    if key not in seen:
                        seen.add(key)
                        if st["nontrivial"](c, io):
                            res.distinct_nontrivial += 1
                            if len(res.samples) < 6:
                                res.samples.append({"case": c[:400], "impl": io[:300]})
                    kind = (io.split(" ") + ["?", "?"])[1]
                    dist[st["name"] + ":" + kind] = dist.get(st["name"] + ":" + kind, 0) + 1
                if io != mo:
                    disagreements.append({"stream": st["name"], "profile": prof, "case": c, "impl": io, "model": mo})
    res.extra["distribution"] = dist
    res.disagreements = len(disagreements)
    return disagreements


def run_check(pid, spec, tier, seed, replay):
    res = Result(pid)
    res.rule = spec.get("rule", "")
    res.assumptions = spec.get("assumptions", [])
    res.proof_failure = None
    # (1)+(2) harness build and Generated.v
    dbg = fv.build_harness("debug")
    translate.regenerate(dbg)
    # (3) proofs
    proofs_ok = check_coq(pid, spec, res)
    # (4)+(5) correspondence
    replay_cases = None
    if replay:
        rp = json.load(open(replay))
        replay_cases = [rp["case"]] if "case" in rp else rp.get("cases")
    disagreements = []
    try:
        disagreements = run_streams(pid, spec, tier, seed, res, replay_cases)
    except fv.CheckError as e:
        res.violations.append({"kind": "correspondence-infrastructure", "detail": str(e)[-3000:], "has_input": False,
                               "no_longer_checks": "extraction/driver/harness for %s" % pid})
    # (6) classify
    kf = fv.known_findings()
    oracle = spec.get("oracle")
    found_input = False
    for d in disagreements[:200]:
        cls = oracle(d) if oracle else {"violates": True, "why": "implementation output differs from the proved model on an observable the property constrains"}
        hit = None
        for k in kf.get("known", []):
            if k["property"] == pid and re.search(k["case_regex"], d["case"]) and re.search(k.get("impl_regex", ""), d["impl"]):
                hit = k; break
        if hit:
            msg = "%s (%s)" % (hit["id"], hit["what"])
            if msg not in res.known_hits:
                res.known_hits.append(msg)
            continue
        if cls["violates"]:
            found_input = True
            if len([v for v in res.violations if v.get("kind") == "counterexample"]) < 5:
                res.violations.append({"kind": "counterexample", "has_input": True, "why": cls["why"], **d})
        else:
            if len([v for v in res.violations if v.get("kind") == "correspondence"]) < 3:
                res.violations.append({"kind": "correspondence", "has_input": False, "why": cls["why"],
                                       "no_longer_checks": "correspondence stream %s" % d["stream"], **d})
    if res.proof_failure is not None and not found_input:
        res.violations.append(res.proof_failure)
    elif res.proof_failure is not None:
        # a concrete failing input was found; mention the broken proof in the first counterexample
        res.violations[0]["proof_also_broken"] = res.proof_failure["no_longer_checks"]
    return res
