#!/bin/sh
# usage: tools/try_harmless.sh <name>
# A behaviour-preserving refactoring of /repo made by a sub-agent (/tmp/harmless-<name>/patch.diff, notes.txt):
# stored under /verif/seeded/harmless-<name>/, applied to /repo, ALL 20 quick checks run (none may raise an alarm),
# undone straight afterwards.
name=$1
sd=/tmp/harmless-$name; out=/verif/seeded/harmless-$name
mkdir -p $out
cp $sd/patch.diff $sd/notes.txt $out/ 2>/dev/null
git -C /repo apply $out/patch.diff || { echo "patch does not apply"; exit 2; }
( cd /repo && cargo test --workspace --no-fail-fast --offline 2>&1 | grep -E "^test result" | head -3 ) > $out/checks.txt
for p in C01 C02 C03 C04 C05 C06 C07 C08 C09 C10 C11 C12 C13 C14 C15 C16 C17 C18 C19 C20; do
  (cd /verif && bin/check $p 2>&1 | grep -E "VIOLATION|KNOWN|tier=" | head -4) >> $out/checks.txt
done
git -C /repo checkout -- .
git -C /repo status --short | head -3
echo "alarms: $(grep -c VIOLATION $out/checks.txt)"
