//! A user-defined sink implementing only the four required operations.  It records the bits
//! it receives and the sequence of required-operation calls, and can be told to fail at its
//! k-th operation.
use flacenc::bitsink::{BitSink, Bits};

#[derive(Debug)]
pub struct SinkFail;
impl std::fmt::Display for SinkFail {
    fn fmt(&self, f: &mut std::fmt::Formatter<'_>) -> std::fmt::Result { write!(f, "sinkfail") }
}
impl std::error::Error for SinkFail {}

pub struct UserSink {
    pub bits: Vec<u8>,
    pub ops: Vec<String>,
    pub fail_at: Option<usize>,
    pub record_ops: bool,
    /// true: the sink fails ONCE, on its k-th operation, and would accept later operations (a transient error)
    pub once: bool,
    pub calls: usize,
}
impl UserSink {
    pub fn new(fail_at: Option<usize>) -> Self { UserSink { bits: vec![], ops: vec![], fail_at, record_ops: true, once: false, calls: 0 } }
    fn tick(&mut self, desc: impl FnOnce() -> String) -> Result<(), SinkFail> {
        let k = if self.once { self.calls } else { self.ops.len() };
        self.calls += 1;
        if Some(k) == self.fail_at { return Err(SinkFail); }
        if self.record_ops { self.ops.push(desc()); } else { self.ops.push(String::new()); }
        Ok(())
    }
    fn push(&mut self, v: u64, w: usize, n: usize) {
        // pushes the n most significant bits of the w-bit value v
        for i in 0..n { self.bits.push(((v >> (w - 1 - i)) & 1) as u8); }
    }
    pub fn hex(&self) -> String { bits_to_hex(&self.bits) }
}
pub fn bits_to_hex(bits: &[u8]) -> String {
    // value of the bit string as a hex number without leading zeros
    let pad = (4 - bits.len() % 4) % 4;
    let mut s = String::new();
    let mut acc = 0u8; let mut cnt = pad;
    for b in bits { acc = (acc << 1) | b; cnt += 1; if cnt == 4 { s.push(std::char::from_digit(acc as u32, 16).unwrap()); acc = 0; cnt = 0; } }
    let t = s.trim_start_matches('0');
    if t.is_empty() { "0".to_string() } else { t.to_string() }
}
pub fn bytes_to_bits(bytes: &[u8]) -> Vec<u8> {
    let mut v = Vec::with_capacity(bytes.len() * 8);
    for b in bytes { for i in 0..8 { v.push((b >> (7 - i)) & 1); } }
    v
}
impl BitSink for UserSink {
    type Error = SinkFail;
    fn align_to_byte(&mut self) -> Result<usize, SinkFail> {
        self.tick(|| "A".into())?;
        let r = (8 - self.bits.len() % 8) % 8;
        for _ in 0..r { self.bits.push(0); }
        Ok(r)
    }
    fn write_lsbs<T: Bits>(&mut self, val: T, n: usize) -> Result<(), SinkFail> {
        let w = std::mem::size_of::<T>() * 8; let v: u64 = val.into();
        self.tick(|| format!("L:{}:{}:{}", w, v, n))?;
        let sh = if n == 0 { 0 } else if n >= 64 { v } else { v << (64 - n) };
        self.push(sh, 64, n.min(64));
        Ok(())
    }
    fn write_msbs<T: Bits>(&mut self, val: T, n: usize) -> Result<(), SinkFail> {
        let w = std::mem::size_of::<T>() * 8; let v: u64 = val.into();
        self.tick(|| format!("M:{}:{}:{}", w, v, n))?;
        self.push(v, w, n.min(w));
        Ok(())
    }
    fn write<T: Bits>(&mut self, val: T) -> Result<(), SinkFail> {
        let w = std::mem::size_of::<T>() * 8; let v: u64 = val.into();
        self.tick(|| format!("W:{}:{}", w, v))?;
        self.push(v, w, w);
        Ok(())
    }
}
