//! Correspondence stream PAR: multi-threaded encoding under seeded schedule perturbation and
//! source faults; the event log (hook points of par.rs) is turned into per-thread label
//! sequences that the extracted LTS (Model/Par.v) must accept.
//! Case: PAR <id> <W> <perturb-seed> <readfail|-> <invalid-blocks|-> <cfg> <rate> <ch> <bps> <bs> <samples>
use crate::rng::Rng;
use crate::s_enc::{self, VarSource};
use crate::s_sink::hex;
use crate::sig;
use std::fmt::Write as _;
use std::sync::Mutex;
use std::sync::atomic::{AtomicU64, Ordering};

static LOG: Mutex<Vec<(u64, &'static str, usize, usize)>> = Mutex::new(Vec::new());
static PERTURB: AtomicU64 = AtomicU64::new(0);

fn tid() -> u64 {
    // a small stable per-thread number
    thread_local! { static T: u64 = { static NEXT: AtomicU64 = AtomicU64::new(1); NEXT.fetch_add(1, Ordering::SeqCst) }; }
    T.with(|t| *t)
}

fn hook(name: &'static str, a: usize, b: usize) {
    let t = tid();
    LOG.lock().unwrap_or_else(|e| e.into_inner()).push((t, name, a, b));
    // seeded perturbation: derive a delay from (seed, thread, event count)
    let seed = PERTURB.load(Ordering::Relaxed);
    if seed != 0 {
        let mut z = seed ^ (t.wrapping_mul(0x9E3779B97F4A7C15)) ^ ((a as u64) << 17) ^ ((b as u64) << 3) ^ (name.len() as u64);
        z = (z ^ (z >> 30)).wrapping_mul(0xBF58476D1CE4E5B9); z = (z ^ (z >> 27)).wrapping_mul(0x94D049BB133111EB); z ^= z >> 31;
        match z % 7 { 0 => std::thread::yield_now(), 1 => std::thread::sleep(std::time::Duration::from_micros(50 + z % 400)), 2 => { for _ in 0..(z % 2000) { std::hint::spin_loop(); } } _ => {} }
    }
}

pub fn gen(seed: u64, n: usize, out: &mut String) {
    let mut r = Rng::new(seed ^ 0x9A4);
    for i in 0..n {
        let mut c = sig::gen_valid_cfg(&mut r);
        let ch = *r.pick(&[1usize, 2]); let bps = *r.pick(&[8usize, 16]);
        let bs = *r.pick(&[32usize, 64]);
        let nblocks = r.below(9) as usize;
        let tail = if r.chance(1, 2) { 0 } else { 1 + r.below((bs - 1) as u64) as usize };
        let n_s = nblocks * bs + tail;
        let mut s = sig::gen_signal(&mut r, ch, bps, n_s);
        c.bs = bs;
        let total_blocks = nblocks + (tail > 0) as usize;
        // 1 case in 32: far more workers than cores or blocks (frame-buffer pool of 2 x workers entries)
        let w = if i % 32 == 9 { *r.pick(&[17usize, 33, 40, 64]) } else { 1 + r.below(4) as usize };
        let pseed = if r.chance(1, 6) { 0 } else { r.next() | 1 };
        let readfail = if r.chance(1, 3) { format!("{}", r.below(total_blocks as u64 + 2)) } else { "-".to_string() };
        let mut inv: Vec<usize> = vec![];
        if r.chance(1, 3) && total_blocks > 0 {
            for _ in 0..(1 + r.below(2)) { let j = r.below(total_blocks as u64) as usize; if !inv.contains(&j) { inv.push(j); } }
            inv.sort();
            for j in &inv { let pos = (j * bs) * ch + r.below(ch as u64) as usize; if pos < s.len() { s[pos] = 1 << (bps + 2); } }
        }
        // 1 case in 24 (2 channels): the source ends in the MIDDLE of an inter-channel sample (one interleaved value is missing)
        if i % 24 == 11 && ch == 2 && s.len() > 2 { s.pop(); }
        let invs = if inv.is_empty() { "-".to_string() } else { inv.iter().map(|x| x.to_string()).collect::<Vec<_>>().join(",") };
        writeln!(out, "PAR q{} {} {} {} {} {} {} {} {} {} {}", i, w, pseed, readfail, invs, c.encode(), *r.pick(&[8000usize, 44100]), ch, bps, bs, sig::fmt_samples(&s)).unwrap();
    }
}

fn threads_alive() -> usize {
    std::fs::read_dir("/proc/self/task").map(|d| d.count()).unwrap_or(0)
}

pub fn run(id: &str, rest: &str) -> String {
    let t: Vec<&str> = rest.splitn(5, ' ').collect();
    let w: usize = t[0].parse().unwrap(); let pseed: u64 = t[1].parse().unwrap();
    let readfail: Option<usize> = if t[2] == "-" { None } else { Some(t[2].parse().unwrap()) };
    let mut c = s_enc::parse(t[4]);
    // single-threaded reference
    c.cfg.mt = false;
    let src = VarSource { samples: c.samples.clone(), ch: c.ch, bps: c.bps, rate: c.rate, pos: 0, bytes_mode: false, hint: true, fail_at: readfail, reads: 0, hint_extra: 0 };
    let cfg1 = c.cfg.to_encoder();
    use flacenc::error::Verify;
    let cfg1 = match cfg1.into_verified() { Ok(v) => v, Err(_) => return format!("{} cfg-err", id) };
    let st = flacenc::encode_with_fixed_block_size(&cfg1, src, c.bs);
    let st_s = match &st { Ok(s) => format!("ok:{}", hex(&s_enc::stream_bytes(s))), Err(e) => s_enc::err_kind(e) };
    // multi-threaded run with hooks
    c.cfg.mt = true; c.cfg.workers = Some(w);
    let cfgm = c.cfg.to_encoder().into_verified().ok().unwrap();
    let src = VarSource { samples: c.samples.clone(), ch: c.ch, bps: c.bps, rate: c.rate, pos: 0, bytes_mode: false, hint: true, fail_at: readfail, reads: 0, hint_extra: 0 };
    LOG.lock().unwrap_or_else(|e| e.into_inner()).clear();
    PERTURB.store(pseed, Ordering::Relaxed);
    flacenc::verif::set_event_hook(Some(hook));
    let before = threads_alive();
    let (tx, rx) = std::sync::mpsc::channel();
    let bs = c.bs;
    let h = std::thread::spawn(move || {
        let r = std::panic::catch_unwind(std::panic::AssertUnwindSafe(|| flacenc::encode_with_fixed_block_size(&cfgm, src, bs)));
        let s = match r { Ok(Ok(s)) => format!("ok:{}", hex(&s_enc::stream_bytes(&s))), Ok(Err(e)) => s_enc::err_kind(&e), Err(_) => "panic".to_string() };
        let _ = tx.send(s);
    });
    let mt_s = match rx.recv_timeout(std::time::Duration::from_secs(20)) { Ok(s) => { let _ = h.join(); s } Err(_) => "hang".to_string() };
    flacenc::verif::set_event_hook(None);
    PERTURB.store(0, Ordering::Relaxed);
    // the runner thread and everything it started must be gone
    let mut after = threads_alive();
    for _ in 0..50 { if after <= before { break; } std::thread::sleep(std::time::Duration::from_millis(2)); after = threads_alive(); }
    let leaked = after.saturating_sub(before);
    // per-thread label sequences
    let log = LOG.lock().unwrap_or_else(|e| e.into_inner()).clone();
    let mut by_thread: Vec<(u64, Vec<(&'static str, usize, usize)>)> = vec![];
    for (t, n, a, b) in &log {
        match by_thread.iter_mut().find(|(tt, _)| tt == t) { Some((_, v)) => v.push((n, *a, *b)), None => by_thread.push((*t, vec![(n, *a, *b)])) }
    }
    let mut f = String::new(); let mut hs = String::new(); let mut m = String::new(); let mut ws: Vec<String> = vec![];
    for (_t, evs) in &by_thread {
        let is_worker = evs.iter().any(|e| e.0.starts_with("w_"));
        let is_hash = evs.iter().any(|e| e.0 == "h_recv");
        if is_worker {
            let mut s = String::new();
            let mut i = 0;
            while i < evs.len() {
                match evs[i].0 {
                    "w_got" => write!(s, "R{},", evs[i].1).unwrap(),
                    "w_exit" => s.push_str("RN,"),
                    "w_encoded" => write!(s, "E{}:{},", evs[i].1, evs[i].2).unwrap(),
                    "sink_push" => write!(s, "P{},", evs[i].1).unwrap(),
                    _ => {}
                }
                i += 1;
            }
            ws.push(s.trim_end_matches(',').to_string());
        } else if is_hash {
            for e in evs { if e.0 == "h_recv" { write!(hs, "{},", if e.1 == 0 { "E" } else { "D" }).unwrap(); } }
        } else {
            // the calling thread: feeder then epilogue
            let mut i = 0;
            while i < evs.len() {
                match evs[i].0 {
                    "f_refill_got" => write!(f, "G{},", evs[i].1).unwrap(),
                    "f_read_begin" => {
                        // outcome of the read: numbered / eof / failure (next feeder event is a stop token)
                        let mut j = i + 1; let mut outc = "X".to_string();
                        while j < evs.len() { match evs[j].0 { "f_numbered" => { outc = format!("N{}", evs[j].2); break; } "f_eof" => { outc = "Z".into(); break; } "stop_send" | "f_request_stop" => { outc = "F".into(); break; } _ => {} } j += 1; }
                        write!(f, "{},", outc).unwrap();
                    }
                    "enc_send" => write!(f, "S{},", evs[i].1).unwrap(),
                    "stop_send" => f.push_str("T,"),
                    "h_stop_send" => m.push_str("SH,"),
                    "h_join" => m.push_str("JH,"),
                    "m_joined" => m.push_str("JW,"),
                    _ => {}
                }
                i += 1;
            }
        }
    }
    format!("{} st={} mt={} leaked={} | F:{} | H:{} | M:{} | W:{}", id, st_s, mt_s, leaked,
            f.trim_end_matches(','), hs.trim_end_matches(','), m.trim_end_matches(','), ws.join(";"))
}
