//! Prints values taken from the compiled crate (constants, complete finite tables, defaults).
//! tools/translate.py turns this into Generated.v.
use flacenc::constant as c;

pub fn dump() {
    println!("const MIN_BLOCK_SIZE {}", c::MIN_BLOCK_SIZE);
    println!("const MAX_BLOCK_SIZE {}", c::MAX_BLOCK_SIZE);
    println!("const DEFAULT_BLOCK_SIZE {}", c::DEFAULT_BLOCK_SIZE);
    println!("const MAX_CHANNELS {}", c::MAX_CHANNELS);
    println!("const MIN_BITS_PER_SAMPLE {}", c::MIN_BITS_PER_SAMPLE);
    println!("const MAX_BITS_PER_SAMPLE {}", c::MAX_BITS_PER_SAMPLE);
    println!("const FIXED_MAX_LPC_ORDER {}", c::fixed::MAX_LPC_ORDER);
    println!("const QLPC_DEFAULT_ORDER {}", c::qlpc::DEFAULT_ORDER);
    println!("const QLPC_DEFAULT_PRECISION {}", c::qlpc::DEFAULT_PRECISION);
    println!("const QLPC_MAX_ORDER {}", c::qlpc::MAX_ORDER);
    println!("const QLPC_MAX_PRECISION {}", c::qlpc::MAX_PRECISION);
    println!("const QLPC_MAX_SHIFT {}", c::qlpc::MAX_SHIFT);
    println!("const QLPC_MIN_SHIFT {}", c::qlpc::MIN_SHIFT);
    println!("const QLPC_SHIFT_BITS {}", c::qlpc::SHIFT_BITS);
    println!("const RICE_MAX_RICE_PARAMETER {}", c::rice::MAX_RICE_PARAMETER);
    println!("const RICE_MAX_PARTITION_ORDER {}", c::rice::MAX_PARTITION_ORDER);
    println!("const RICE_MAX_PARTITIONS {}", c::rice::MAX_PARTITIONS);
    println!("const RICE_MIN_PARTITION_SIZE {}", c::rice::MIN_PARTITION_SIZE);
    println!("const RICE_MAX_P_TO_BITS {}", flacenc::verif::rice::table_from_errors(&[u32::MAX; 1], 4)[0]);
    println!("const MIN_BLOCK_SIZE_FOR_PREDICTION {}", flacenc::verif::constants::MIN_BLOCK_SIZE_FOR_PREDICTION);
    println!("const DEFAULT_ENTROPY_ESTIMATOR_PARTITIONS {}", flacenc::verif::constants::DEFAULT_ENTROPY_ESTIMATOR_PARTITIONS);
    println!("const MAX_ENTROPY_ESTIMATOR_PARTITIONS {}", flacenc::verif::constants::MAX_ENTROPY_ESTIMATOR_PARTITIONS);
    println!("const PAR_FRAMEBUF_MULTIPLICITY {}", c::par::FRAMEBUF_MULTIPLICITY);
}
