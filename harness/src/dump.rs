//! Prints values taken from the compiled crate (constants, complete finite tables, defaults).
//! tools/translate.py turns this into Generated.v.
use flacenc::constant as c;

fn pack(tag: u64, xbits: u64, xval: u64) -> u64 { (tag << 24) | (xbits << 16) | xval }

/// Complete graphs of the finite header-code functions, one packed number per argument.
pub fn dump_tables() {
    use flacenc::bitsink::ByteSink;
    use flacenc::component::{BitRepr, ChannelAssignment, FrameHeader, FrameOffset};
    // Block-size and sample-rate codes are private enums; observe them through the bytes of a
    // frame header (tag nibbles in byte 2, extra bits at the end, before the CRC byte).
    let hdr = |block: usize, rate: usize| -> Option<Vec<u8>> {
        let h = FrameHeader::new(block, ChannelAssignment::Independent(1), 16, rate, FrameOffset::Frame(0)).ok()?;
        let mut s = ByteSink::new(); h.write(&mut s).ok()?; Some(s.into_inner())
    };
    let mut line = String::from("table block_size");
    for n in 1..=32767usize {
        let b = hdr(n, 44100).unwrap();
        let tag = (b[2] >> 4) as u64;
        let extra = &b[5..b.len() - 1];
        let (xbits, xval) = match extra.len() { 0 => (0, 0), 1 => (8, extra[0] as u64), _ => (16, ((extra[0] as u64) << 8) | extra[1] as u64) };
        line.push_str(&format!(" {}", pack(tag, xbits, xval)));
    }
    println!("{}", line);
    let mut line = String::from("table sample_rate");
    for f in 1..=96000usize {
        // FrameHeader::new rejects rates without a code; the encoder then writes code 0
        // ("take it from STREAMINFO"), which is what the table records.
        let b = match hdr(192, f) { Some(b) => b, None => { line.push_str(" 0"); continue; } };
        let tag = (b[2] & 15) as u64;
        let extra = &b[5..b.len() - 1];
        let (xbits, xval) = match extra.len() { 0 => (0, 0), 1 => (8, extra[0] as u64), _ => (16, ((extra[0] as u64) << 8) | extra[1] as u64) };
        line.push_str(&format!(" {}", pack(tag, xbits, xval)));
    }
    println!("{}", line);
    let mut line = String::from("table sample_size");
    for bits in [8usize, 12, 16, 20, 24] {
        let h = FrameHeader::new(192, ChannelAssignment::Independent(1), bits, 44100, FrameOffset::Frame(0)).unwrap();
        let mut s = ByteSink::new(); h.write(&mut s).unwrap(); let b = s.into_inner();
        line.push_str(&format!(" {}", ((bits as u64) << 8) | ((b[3] >> 1) & 7) as u64));
    }
    println!("{}", line);
    let mut line = String::from("table utf8_size");
    for v in [0u64, 127, 128, 2047, 2048, 65535, 65536, (1 << 21) - 1, 1 << 21, (1 << 26) - 1, 1 << 26, (1 << 31) - 1, 1 << 31, (1 << 36) - 1] {
        line.push_str(&format!(" {}", (v << 8) | flacenc::verif::bitrepr::utf8like_size(v as usize) as u64));
    }
    println!("{}", line);
}

pub fn dump() {
    println!("const MIN_BLOCK_SIZE {}", c::MIN_BLOCK_SIZE);
    println!("const MAX_BLOCK_SIZE {}", c::MAX_BLOCK_SIZE);
    println!("const DEFAULT_BLOCK_SIZE {}", c::DEFAULT_BLOCK_SIZE);
    println!("const MAX_CHANNELS {}", c::MAX_CHANNELS);
    println!("const MIN_BITS_PER_SAMPLE {}", c::MIN_BITS_PER_SAMPLE);
    println!("const MAX_BITS_PER_SAMPLE {}", c::MAX_BITS_PER_SAMPLE);
    println!("const FIXED_MAX_LPC_ORDER {}", c::fixed::MAX_LPC_ORDER);
    println!("const QLPC_DEFAULT_ORDER {}", c::qlpc::DEFAULT_ORDER);
    println!("const QLPC_DEFAULT_PRECISION {}", c::qlpc::DEFAULT_PRECISION);
    println!("const QLPC_MAX_ORDER {}", c::qlpc::MAX_ORDER);
    println!("const QLPC_MAX_PRECISION {}", c::qlpc::MAX_PRECISION);
    println!("const QLPC_MAX_SHIFT {}", c::qlpc::MAX_SHIFT);
    println!("const QLPC_MIN_SHIFT {}", c::qlpc::MIN_SHIFT);
    println!("const QLPC_SHIFT_BITS {}", c::qlpc::SHIFT_BITS);
    println!("const RICE_MAX_RICE_PARAMETER {}", c::rice::MAX_RICE_PARAMETER);
    println!("const RICE_MAX_PARTITION_ORDER {}", c::rice::MAX_PARTITION_ORDER);
    println!("const RICE_MAX_PARTITIONS {}", c::rice::MAX_PARTITIONS);
    println!("const RICE_MIN_PARTITION_SIZE {}", c::rice::MIN_PARTITION_SIZE);
    println!("const RICE_MAX_P_TO_BITS {}", flacenc::verif::rice::table_from_errors(&[u32::MAX; 1], 4)[0]);
    println!("const MIN_BLOCK_SIZE_FOR_PREDICTION {}", flacenc::verif::constants::MIN_BLOCK_SIZE_FOR_PREDICTION);
    println!("const DEFAULT_ENTROPY_ESTIMATOR_PARTITIONS {}", flacenc::verif::constants::DEFAULT_ENTROPY_ESTIMATOR_PARTITIONS);
    println!("const MAX_ENTROPY_ESTIMATOR_PARTITIONS {}", flacenc::verif::constants::MAX_ENTROPY_ESTIMATOR_PARTITIONS);
    println!("const PAR_FRAMEBUF_MULTIPLICITY {}", c::par::FRAMEBUF_MULTIPLICITY);
    // Default impls of every configuration struct, through the public fields
    println!("cfgdefault {}", crate::sig::Cfg::from_encoder(&flacenc::config::Encoder::default()).encode());
    println!("const FEATURE_EXPERIMENTAL {}", cfg!(feature = "fexperimental") as u8);
    dump_tables();
}
