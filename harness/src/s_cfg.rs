//! Correspondence stream CFG: configuration verification and the TOML schema.
//!   CFG <id> V <cfg>      config::Encoder::into_verified
//!   CFG <id> S <cfg>      toml::to_string -> canonical document
//!   CFG <id> P <doc>      canonical document -> toml text -> config::Encoder (or error)
use crate::rng::Rng;
use crate::sig::{self, Cfg};
use std::fmt::Write as _;

#[cfg(feature = "fdefault")]
mod imp {
    use super::*;
    use flacenc::error::Verify;
    use toml::Value;

    pub fn canon(v: &Value) -> String {
        match v {
            Value::Integer(i) => format!("i{}", i),
            Value::Boolean(b) => format!("b{}", *b as u8),
            Value::Float(f) => format!("f{}", (*f as f32).to_bits()),
            Value::String(s) => format!("s{}", s),
            Value::Table(t) => {
                let mut items: Vec<String> = t.iter().map(|(k, v)| format!("{}:{}", k, canon(v))).collect();
                items.sort();
                format!("{{{}}}", items.join(","))
            }
            _ => "?".into(),
        }
    }

    // minimal parser of the canonical syntax
    pub fn parse(s: &str) -> Value { let b = s.as_bytes(); let mut i = 0; let v = pv(b, &mut i); assert!(i == b.len()); v }
    fn pv(b: &[u8], i: &mut usize) -> Value {
        match b[*i] {
            b'{' => {
                *i += 1; let mut t = toml::map::Map::new();
                while b[*i] != b'}' {
                    let st = *i; while b[*i] != b':' { *i += 1; }
                    let k = std::str::from_utf8(&b[st..*i]).unwrap().to_string(); *i += 1;
                    let v = pv(b, i); t.insert(k, v);
                    if b[*i] == b',' { *i += 1; }
                }
                *i += 1; Value::Table(t)
            }
            c => {
                *i += 1; let st = *i;
                while *i < b.len() && b[*i] != b',' && b[*i] != b'}' { *i += 1; }
                let body = std::str::from_utf8(&b[st..*i]).unwrap();
                match c {
                    b'i' => Value::Integer(body.parse().unwrap()),
                    b'b' => Value::Boolean(body == "1"),
                    b'f' => Value::Float(f32::from_bits(body.parse().unwrap()) as f64),
                    _ => Value::String(body.to_string()),
                }
            }
        }
    }

    pub fn run(id: &str, rest: &str) -> String {
        let (kind, body) = rest.split_once(' ').unwrap();
        match kind {
            "V" => {
                let c = Cfg::decode(body);
                match c.to_encoder().into_verified() { Ok(_) => format!("{} ok", id), Err(_) => format!("{} err", id) }
            }
            "S" => {
                let c = Cfg::decode(body);
                match toml::to_string(&c.to_encoder()) {
                    Ok(text) => match text.parse::<Value>() { Ok(v) => format!("{} ok {}", id, canon(&v)), Err(_) => format!("{} reparse-err", id) },
                    Err(_) => format!("{} ser-err", id),
                }
            }
            _ => {
                let v = parse(body);
                let text = match toml::to_string(&v) { Ok(t) => t, Err(_) => return format!("{} doc-ser-err", id) };
                match toml::from_str::<flacenc::config::Encoder>(&text) {
                    Ok(e) => { let c = Cfg::from_encoder(&e);
                               format!("{} ok {} verify={}", id, c.encode(), e.verify().is_ok() as u8) }
                    Err(_) => format!("{} err", id),
                }
            }
        }
    }
}
#[cfg(not(feature = "fdefault"))]
mod imp { pub fn run(id: &str, _rest: &str) -> String { format!("{} unsupported-build", id) } }
pub use imp::run;

fn doc_of(c: &Cfg, r: &mut Rng, erase: bool) -> String {
    // canonical document of a configuration with random omissions at every level
    let keep = |r: &mut Rng| -> bool { !erase || r.chance(3, 4) };
    let mut top: Vec<String> = vec![];
    if keep(r) { top.push(format!("block_size:i{}", c.bs)); }
    if keep(r) { top.push(format!("multithread:b{}", c.mt as u8)); }
    if let Some(w) = c.workers { if keep(r) { top.push(format!("workers:i{}", w)); } }
    if keep(r) {
        let mut st = vec![];
        if keep(r) { st.push(format!("use_leftside:b{}", c.ls as u8)); }
        if keep(r) { st.push(format!("use_midside:b{}", c.ms as u8)); }
        if keep(r) { st.push(format!("use_rightside:b{}", c.rs as u8)); }
        top.push(format!("stereo_coding:{{{}}}", st.join(",")));
    }
    if keep(r) {
        let mut sf = vec![];
        if keep(r) {
            let mut fx = vec![];
            if keep(r) { fx.push(format!("max_order:i{}", c.fo)); }
            if keep(r) {
                match c.os { None => fx.push("order_sel:{type:sBitCount}".to_string()),
                             Some(p) => if keep(r) { fx.push(format!("order_sel:{{partitions:i{},type:sApproxEnt}}", p)) } else { fx.push("order_sel:{type:sApproxEnt}".to_string()) } }
            }
            sf.push(format!("fixed:{{{}}}", fx.join(",")));
        }
        if keep(r) { sf.push(format!("prc:{{{}}}", if keep(r) { format!("max_parameter:i{}", c.mp) } else { String::new() })); }
        if keep(r) {
            let mut q = vec![];
            if keep(r) { q.push(format!("lpc_order:i{}", c.lo)); }
            if keep(r) { q.push(format!("mae_optimization_steps:i{}", c.ma)); }
            if keep(r) { q.push(format!("quant_precision:i{}", c.qp)); }
            if keep(r) { q.push(format!("use_direct_mse:b{}", c.dm as u8)); }
            if keep(r) { match c.win { None => q.push("window:{type:sRectangle}".to_string()), Some(b) => q.push(format!("window:{{alpha:f{},type:sTukey}}", b)) } }
            sf.push(format!("qlpc:{{{}}}", q.join(",")));
        }
        if keep(r) { sf.push(format!("use_constant:b{}", c.uc as u8)); }
        if keep(r) { sf.push(format!("use_fixed:b{}", c.uf as u8)); }
        if keep(r) { sf.push(format!("use_lpc:b{}", c.ul as u8)); }
        sf.sort();
        top.push(format!("subframe_coding:{{{}}}", sf.join(",")));
    }
    top.sort();
    format!("{{{}}}", top.join(","))
}

fn gen_any_cfg(r: &mut Rng) -> Cfg {
    let mut c = sig::gen_valid_cfg(r);
    c.bs = *r.pick(&[32usize, 33, 4096, 32767, 1000]);
    c.mt = r.chance(1, 2);
    c.workers = match r.below(3) { 0 => None, 1 => Some(1), _ => Some(1 + r.below(40) as usize) };
    // push some fields to and over their limits
    for _ in 0..r.below(3) {
        match r.below(9) {
            0 => c.bs = *r.pick(&[0usize, 1, 31, 32, 32767, 32768, 65535, 65536, 1 << 40]),
            1 => c.fo = *r.pick(&[0usize, 4, 5, 9, 255, 1 << 33]),
            2 => c.os = Some(*r.pick(&[0usize, 1, 64, 65, 1 << 20])),
            3 => c.lo = *r.pick(&[0usize, 1, 24, 25, 32, 33, 1 << 16]),
            4 => c.qp = *r.pick(&[0usize, 1, 15, 16, 17, 255]),
            5 => c.mp = *r.pick(&[0usize, 14, 15, 16, 31, 32, 1 << 8]),
            6 => c.win = Some(*r.pick(&[0u32, 0x3F800000, 0x3F800001, 0x80000000, 0x80000001, 0xBF800000, 0x7F800000, 0x7FC00000, 0xFFC00000, 0x00000001, 0x3F7FFFFF, 0x40000000])),
            7 => c.dm = true,
            _ => c.ma = *r.pick(&[1usize, 2, 100]),
        }
    }
    c
}

pub fn gen(seed: u64, n: usize, out: &mut String) {
    let mut r = Rng::new(seed ^ 0xCF6);
    for i in 0..n {
        let c = gen_any_cfg(&mut r);
        match r.below(4) {
            0 | 1 => writeln!(out, "CFG g{} V {}", i, c.encode()).unwrap(),
            2 => { let mut c2 = c.clone(); if let Some(b) = c2.win { if f32::from_bits(b).is_nan() { c2.win = Some(0x3E800000); } }
                   writeln!(out, "CFG g{} S {}", i, c2.encode()).unwrap() }
            _ => { let mut c2 = c.clone(); if let Some(b) = c2.win { if f32::from_bits(b).is_nan() || f32::from_bits(b).is_infinite() { c2.win = Some(0x3E800000); } }
                   if c2.bs > (1 << 41) { c2.bs = 4096; }
                   let mut d = doc_of(&c2, &mut r, true);
                   // occasionally break the document: wrong type, zero workers, unknown key, missing tag
                   match r.below(12) { 0 => d = d.replacen("block_size:i", "block_size:b", 1), 1 => d = d.replacen("{", "{aaa_unknown:i1,", 1),
                                       2 => d = d.replacen("workers:i", "workers:i0", 1), 3 => d = d.replacen(",type:sApproxEnt", "", 1),
                                       4 => d = d.replacen("type:sTukey", "type:sHann", 1), 5 => d = d.replacen("use_lpc:b", "use_lpc:i", 1), _ => {} }
                   writeln!(out, "CFG g{} P {}", i, d).unwrap() }
        }
    }
}
