mod rng;
mod usersink;
mod s_sink;
mod dump;
mod sig;
mod s_enc;
mod s_cnt;
mod s_rice;
mod s_src;
mod s_cfg;
mod s_parse;
mod s_par;
mod s_api;
mod s_ctor;
mod s_hist;
mod s_scr;

use std::io::{BufRead, Write};

fn run_line(line: &str) -> String {
    let (stream, rest) = line.split_once(' ').unwrap();
    let (id, rest) = rest.split_once(' ').unwrap_or((rest, ""));
    let idc = id.to_string();
    let streamc = stream.to_string();
    let restc = rest.to_string();
    let r = std::panic::catch_unwind(move || match streamc.as_str() {
        "SINK" => s_sink::run(&idc, &restc),
        "ENC" => s_enc::run(&idc, &restc),
        "DLV" => s_enc::run_dlv(&idc, &restc),
        "FAIL" => s_enc::run_fail(&idc, &restc),
        "CNT" => s_cnt::run(&idc, &restc),
        "RICE" => s_rice::run(&idc, &restc),
        "SRC" => s_src::run(&idc, &restc),
        "CFG" => s_cfg::run(&idc, &restc),
        "PARSE" => s_parse::run(&idc, &restc),
        "PAR" => s_par::run(&idc, &restc),
        "API" => s_api::run(&idc, &restc),
        "CTOR" => s_ctor::run(&idc, &restc),
        "HIST" => s_hist::run(&idc, &restc),
        "SCR" => s_scr::run(&idc, &restc),
        _ => format!("{} unknown-stream", idc),
    });
    match r { Ok(s) => s, Err(_) => format!("{} panic", id) }
}

/// Streams that start threads inside the crate run under a watchdog: a case that does not return within
/// 25 s is reported as `hang` (its thread is abandoned) instead of stalling the whole shard.
fn run_line_guarded(line: &str) -> String {
    let stream = line.split(' ').next().unwrap_or("");
    if !matches!(stream, "DLV" | "FAIL" | "HIST" | "ENC") { return run_line(line); }
    let id = line.split(' ').nth(1).unwrap_or("?").to_string();
    let l = line.to_string();
    let (tx, rx) = std::sync::mpsc::channel();
    std::thread::Builder::new().stack_size(64 << 20).spawn(move || { let _ = tx.send(run_line(&l)); }).unwrap();
    match rx.recv_timeout(std::time::Duration::from_secs(25)) { Ok(s) => s, Err(_) => format!("{} hang", id) }
}

fn main() {
    let args: Vec<String> = std::env::args().collect();
    match args.get(1).map(|s| s.as_str()) {
        Some("gen") => {
            let stream = &args[2];
            let seed: u64 = args[3].parse().unwrap();
            let n: usize = args[4].parse().unwrap();
            let mut out = String::new();
            match stream.as_str() {
                "SINK" => s_sink::gen(seed, n, &mut out),
                "ENC" => s_enc::gen(seed, n, &mut out),
                "DLV" => s_enc::gen_dlv(seed, n, &mut out),
                "FAIL" => s_enc::gen_fail(seed, n, &mut out),
                "CNT" => s_cnt::gen(seed, n, &mut out),
                "RICE" => s_rice::gen(seed, n, &mut out),
                "SRC" => s_src::gen(seed, n, &mut out),
                "CFG" => s_cfg::gen(seed, n, &mut out),
                "PARSE" => s_parse::gen(seed, n, &mut out),
                "PAR" => s_par::gen(seed, n, &mut out),
                "API" => s_api::gen(seed, n, &mut out),
                "CTOR" => s_ctor::gen(seed, n, &mut out),
                "HIST" => s_hist::gen(seed, n, &mut out),
                "SCR" => s_scr::gen(seed, n, &mut out),
                _ => panic!("unknown stream"),
            }
            print!("{}", out);
        }
        Some("dump") => dump::dump(),
        Some("augment") => {
            std::panic::set_hook(Box::new(|_| {}));
            let stdin = std::io::stdin();
            let stdout = std::io::stdout();
            let mut o = std::io::BufWriter::new(stdout.lock());
            for line in stdin.lock().lines() {
                let line = line.unwrap();
                if line.trim().is_empty() || line.starts_with('#') { continue; }
                let (stream, rest) = line.split_once(' ').unwrap();
                let (_id, rest) = rest.split_once(' ').unwrap_or((rest, ""));
                let l = match stream {
                    "ENC" => s_enc::augment(&line, rest),
                    "HIST" => s_hist::augment(&line, rest),
                    "DLV" => { let (_m, r2) = rest.split_once(' ').unwrap(); s_enc::augment(&line, r2) }
                    "FAIL" => { let t: Vec<&str> = rest.splitn(3, ' ').collect(); s_enc::augment(&line, t[2]) }
                    _ => line.clone(),
                };
                writeln!(o, "{}", l).unwrap();
            }
        }
        Some("run") => {
            std::panic::set_hook(Box::new(|_| {}));
            let stdin = std::io::stdin();
            let stdout = std::io::stdout();
            let mut o = std::io::BufWriter::new(stdout.lock());
            for line in stdin.lock().lines() {
                let line = line.unwrap();
                if line.trim().is_empty() || line.starts_with('#') { continue; }
                writeln!(o, "{}", run_line_guarded(&line)).unwrap(); o.flush().unwrap();
            }
        }
        _ => { eprintln!("usage: vharness gen <stream> <seed> <n> | run < cases"); std::process::exit(2); }
    }
}
