//! Correspondence stream SINK: operation sequences on MemSink<u8>, MemSink<u64> and a user sink.
use crate::rng::Rng;
use crate::usersink::UserSink;
use flacenc::bitsink::{BitSink, MemSink};
use std::fmt::Write as _;

fn rand_val(r: &mut Rng, w: u32) -> u64 {
    let m = if w == 64 { u64::MAX } else { (1u64 << w) - 1 };
    match r.below(6) {
        0 => 0,
        1 => m,
        2 => 1u64 << r.below(w as u64),
        3 => m ^ (1u64 << r.below(w as u64)),
        _ => r.next() & m,
    }
}

pub fn gen_ops(r: &mut Rng, allow_zero_width: bool) -> String {
    let mut s = String::new();
    // start from every bit offset 0..63: first a zero run / lsbs of random offset
    let off = r.below(64);
    if off > 0 { write!(s, "L:64:{}:{} ", r.next(), off).unwrap(); }
    let nops = 1 + r.below(12);
    for _ in 0..nops {
        let w = *r.pick(&[8u32, 16, 32, 64]);
        let lo = if allow_zero_width { 0 } else { 1 };
        match r.below(10) {
            0 => write!(s, "W:{}:{} ", w, rand_val(r, w)).unwrap(),
            1 | 2 => { let n = r.range(lo, w as i64); write!(s, "M:{}:{}:{} ", w, rand_val(r, w), n).unwrap() }
            3 | 4 => { let n = r.range(lo, w as i64); write!(s, "L:{}:{}:{} ", w, rand_val(r, w), n).unwrap() }
            5 => {
                let n = r.range(1, 64);
                let v: i64 = match r.below(5) { 0 => 0, 1 => -1, 2 => i64::MIN, 3 => i64::MAX, _ => r.next() as i64 };
                // keep the value arbitrary: the field is v mod 2^n
                write!(s, "T:{}:{} ", v, n).unwrap()
            }
            6 | 7 => { let n = match r.below(4) { 0 => r.below(9), 1 => r.below(70), 2 => 60 + r.below(140), _ => r.below(300) };
                 write!(s, "Z:{} ", n).unwrap() }
            8 => s.push_str("A "),
            _ => { // byte runs: short ones, runs around one / two / four 64-bit words (a word sink may special-case
                   // whole words), and arbitrary lengths
                   let k = match r.below(4) { 0 => r.below(5), 1 => 7 + r.below(3), 2 => *r.pick(&[15u64, 16, 17, 23, 24, 25, 31, 32, 33]), _ => r.below(48) };
                   let mut h = String::new(); for _ in 0..k { write!(h, "{:02x}", r.below(256)).unwrap(); }
                   write!(s, "B:{} ", h).unwrap() }
        }
    }
    s.trim_end().to_string()
}

pub fn gen(seed: u64, n: usize, out: &mut String) {
    let mut r = Rng::new(seed ^ 0x51);
    for i in 0..n {
        let kind = *r.pick(&["u8", "u64", "user"]);
        let ops = gen_ops(&mut r, true);
        writeln!(out, "SINK s{} {} {}", i, kind, ops).unwrap();
    }
}

fn hexbytes(s: &str) -> Vec<u8> { (0..s.len() / 2).map(|i| u8::from_str_radix(&s[2 * i..2 * i + 2], 16).unwrap()).collect() }

pub fn apply<S: BitSink>(sink: &mut S, ops: &str) -> Result<(), S::Error> {
    for tok in ops.split_whitespace() {
        let p: Vec<&str> = tok.split(':').collect();
        match p[0] {
            "W" => { let v: u64 = p[2].parse().unwrap(); match p[1] { "8" => sink.write(v as u8)?, "16" => sink.write(v as u16)?, "32" => sink.write(v as u32)?, _ => sink.write(v)? } }
            "M" => { let v: u64 = p[2].parse().unwrap(); let n: usize = p[3].parse().unwrap();
                     match p[1] { "8" => sink.write_msbs(v as u8, n)?, "16" => sink.write_msbs(v as u16, n)?, "32" => sink.write_msbs(v as u32, n)?, _ => sink.write_msbs(v, n)? } }
            "L" => { let v: u64 = p[2].parse().unwrap(); let n: usize = p[3].parse().unwrap();
                     match p[1] { "8" => sink.write_lsbs(v as u8, n)?, "16" => sink.write_lsbs(v as u16, n)?, "32" => sink.write_lsbs(v as u32, n)?, _ => sink.write_lsbs(v, n)? } }
            "T" => { let v: i64 = p[1].parse().unwrap(); let n: usize = p[2].parse().unwrap(); sink.write_twoc(v, n)? }
            "Z" => { let n: usize = p[1].parse().unwrap(); sink.write_zeros(n)? }
            "A" => { sink.align_to_byte()?; }
            "B" => { let b = hexbytes(p.get(1).copied().unwrap_or("")); sink.write_bytes_aligned(&b)?; }
            _ => panic!("bad op {}", tok),
        }
    }
    Ok(())
}

pub fn run(id: &str, rest: &str) -> String {
    let (kind, ops) = rest.split_once(' ').unwrap_or((rest, ""));
    match kind {
        "u8" => {
            let mut s = MemSink::<u8>::new();
            apply(&mut s, ops).unwrap();
            let st: Vec<String> = s.as_slice().iter().map(|x| format!("{:x}", x)).collect();
            let mut ex = vec![0u8; (s.len() + 7) / 8];
            s.write_to_byte_slice(&mut ex);
            format!("{} ok {} [{}] {}", id, s.len(), st.join(","), hex(&ex))
        }
        "u64" => {
            let mut s = MemSink::<u64>::new();
            apply(&mut s, ops).unwrap();
            let st: Vec<String> = s.as_slice().iter().map(|x| format!("{:x}", x)).collect();
            let mut ex = vec![0u8; (s.len() + 7) / 8];
            s.write_to_byte_slice(&mut ex);
            format!("{} ok {} [{}] {}", id, s.len(), st.join(","), hex(&ex))
        }
        _ => {
            let mut s = UserSink::new(None);
            apply(&mut s, ops).unwrap();
            format!("{} ok {} {}", id, s.bits.len(), s.hex())
        }
    }
}
pub fn hex(b: &[u8]) -> String { let mut s = String::new(); for x in b { write!(s, "{:02x}", x).unwrap(); } if s.is_empty() { "-".into() } else { s } }
