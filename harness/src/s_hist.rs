//! Correspondence stream HIST: call histories on one long-lived thread (C10).
//! Case: HIST <id> <k> <ENC body> ;; <k> <ENC body> ;; ...     k = E | M | P | F
//!   E  encode_with_fixed_block_size (single thread) + Stream::write
//!   M  the same with multithread = true, 2 workers
//!   P  E, then parser::stream on the bytes and Stream::write of the parsed stream
//!   F  encode_fixed_size_frame on the first block + Frame::write
//!   X  E, but the stream is written into a user sink that fails half way (three times, at different calls)
//!   Z  no encoding: every thread-local scratch storage of the thread is overwritten with arbitrary contents
//!      (hook poison_scratch, seeded by the body); what matters is that the calls after it are unaffected
//! Output: `<id> seq=<h1,h2,..> fresh=<h1,h2,..>`: FNV-1a of the bytes of each call when the calls run
//! in order on one thread, and when each call runs alone on a thread of its own.
use crate::rng::Rng;
use crate::s_enc::{self, Case};
use crate::sig;
use flacenc::bitsink::ByteSink;
use flacenc::component::BitRepr;
use flacenc::error::Verify;
use flacenc::source::{Fill, FrameBuf};
use std::fmt::Write as _;

pub fn fnv_bytes(v: &[u8]) -> String {
    let mut h: u64 = 0xcbf29ce484222325;
    for b in v { h ^= *b as u64; h = h.wrapping_mul(0x100000001b3); }
    format!("{:016x}", h)
}

pub fn gen(seed: u64, n: usize, out: &mut String) {
    let mut r = Rng::new(seed ^ 0x4157);
    for i in 0..n {
        let k = 2 + r.below(5) as usize;
        let mut calls: Vec<String> = vec![];
        // a family of related calls: the same configuration family with small perturbations is where
        // stale scratch and cache keys would show
        let base = sig::gen_valid_cfg(&mut r);
        let mut prev_alpha: Option<u32> = None;
        if i % 40 == 17 {
            // a LONG history: 34..44 frame-level calls with LPC and a Tukey window whose (block size, alpha) key is different in
            // every call - strictly shrinking / strictly growing / shuffled block sizes, or one block size with alpha moving by
            // 2^-20 per call - so that any bounded or ordered window cache is driven through its limit
            let mut c = base.clone(); c.ul = true; c.uc = true; c.uf = r.chance(1, 2); c.lo = 1 + r.below(8) as usize;
            let m = 34 + r.below(11) as usize;
            let style = r.below(4);
            let a0: f32 = *r.pick(&[0.25f32, 0.5, 0.75]);
            let mut order: Vec<usize> = (0..m).collect();
            if style == 2 { for q in (1..m).rev() { let j = r.below(q as u64 + 1) as usize; order.swap(q, j); } }
            for (idx, q) in order.iter().enumerate() {
                let bs = match style { 0 => 140 - q, 1 => 64 + q, 2 => 64 + q, _ => 96 };
                let a = if style == 3 { a0 - (idx as f32) / 1048576.0 } else { a0 };
                c.win = Some(a.to_bits()); c.bs = bs;
                let s: Vec<i32> = (0..bs).map(|t| (((t * 37 + idx * 11) % 23) as i32 - 11) * 3 + ((t as i32) / 7) % 5).collect();
                calls.push(format!("F {} {} {} {} {} {}", c.encode(), 44100, 1, 8, bs, sig::fmt_samples(&s)));
            }
            writeln!(out, "HIST h{} {}", i, calls.join(" ;; ")).unwrap();
            continue;
        }
        if r.chance(1, 2) {
            // near-alpha family: identical calls except for Tukey parameters closer than 2^-16
            let mut c = base.clone();
            c.ul = true; c.uf = r.chance(1, 2); c.uc = true;
            let (rate, ch, bps, bs, mut s) = s_enc::gen_input(&mut r, true);
            if s.len() > 2400 { s.truncate(2400 - 2400 % ch); }
            c.bs = bs;
            let a0: f32 = *r.pick(&[0.0f32, 0.0, 1.0 / 65536.0, 0.1, 0.25, 0.5, 0.75, 0.99998]);
            let mut a = a0;
            for _ in 0..k {
                c.win = Some(a.to_bits());
                let kind = match r.below(8) { 0..=4 => "E", 5 => "X", _ => "F" };
                if r.chance(1, 3) { calls.push(format!("Z {} {} {} {} {} {}", c.encode(), rate, ch, bps, bs, sig::fmt_samples(&s[0..s.len().min(8 * ch)]))); }
                calls.push(format!("{} {} {} {} {} {} {}", kind, c.encode(), rate, ch, bps, bs, sig::fmt_samples(&s)));
                a = (a0 + *r.pick(&[1e-6f32, 4e-6, 7.6e-6, 1.2e-5, 1.5e-5, 3.0e-6])).min(1.0);
                if r.chance(1, 4) { a = a0; }
            }
            writeln!(out, "HIST h{} {}", i, calls.join(" ;; ")).unwrap();
            continue;
        }
        for j in 0..k {
            let mut c = if r.chance(1, 2) { base.clone() } else { sig::gen_valid_cfg(&mut r) };
            let (rate, ch, bps, mut bs, mut s) = s_enc::gen_input(&mut r, true);
            // shrinking and growing block sizes around the previous call
            if j > 0 && r.chance(1, 2) { bs = *r.pick(&[32usize, 64, 65, 100, 192, 256, 320]); }
            if s.len() > 2400 { s.truncate(2400 - 2400 % ch); }
            c.bs = bs;
            c.ul = c.ul || r.chance(1, 2);
            // window parameters that differ by less than 2^-16 from the previous call's
            if let Some(a) = prev_alpha { if r.chance(2, 3) { let d = 1 + r.below(40) as u32; c.win = Some(if r.chance(1, 2) { a.wrapping_add(d) } else { a.saturating_sub(d) }); } }
            if c.win.is_none() && r.chance(1, 2) { c.win = Some(f32::to_bits(*r.pick(&[0.0f32, 1e-6, 0.1, 0.25, 0.4, 0.5, 0.99999, 1.0]))); }
            if let Some(a) = c.win { if f32::from_bits(a) <= 1.0 && f32::from_bits(a) >= 0.0 { prev_alpha = Some(a); } else { c.win = prev_alpha; } }
            let kind = match r.below(10) { 0 | 1 | 2 | 3 => "E", 4 => "M", 5 => "P", 6 | 7 => "X", _ => "F" };
            if r.chance(1, 3) { calls.push(format!("Z {} {} {} {} {} {}", c.encode(), rate, ch, bps, bs, sig::fmt_samples(&s[0..s.len().min(8 * ch)]))); }
            calls.push(format!("{} {} {} {} {} {} {}", kind, c.encode(), rate, ch, bps, bs, sig::fmt_samples(&s)));
        }
        writeln!(out, "HIST h{} {}", i, calls.join(" ;; ")).unwrap();
    }
}

/// X: encode (single thread), then write the stream into a user sink that fails half way.  The call's own
/// result is not compared; what matters is what it leaves behind for the calls after it.
fn failing_write(c: &Case) -> String {
    let mut c2 = Case { cfg: c.cfg.clone(), rate: c.rate, ch: c.ch, bps: c.bps, bs: c.bs, samples: c.samples.clone() };
    c2.cfg.mt = false;
    if let Ok(s) = s_enc::encode(&c2) {
        let mut probe = crate::usersink::UserSink::new(None); probe.record_ops = false;
        if s.write(&mut probe).is_ok() {
            let total = probe.ops.len();
            for k in [total / 2, total * 9 / 10, 3usize] { let mut sink = crate::usersink::UserSink::new(Some(k)); let _ = s.write(&mut sink); }
        }
    }
    "xfail".to_string()
}

fn do_call(kind: &str, c: &Case) -> String {
    if kind == "X" { return failing_write(c); }
    if kind == "Z" {
        let mut h: u64 = 0x9E3779B97F4A7C15 ^ (c.samples.len() as u64) ^ ((c.bs as u64) << 20) ^ ((c.rate as u64) << 40);
        for v in c.samples.iter().take(64) { h = (h ^ (*v as u32 as u64)).wrapping_mul(0x100000001b3); }
        flacenc::verif::poison_scratch(h);
        return "poison".to_string();
    }
    let mut c2 = Case { cfg: c.cfg.clone(), rate: c.rate, ch: c.ch, bps: c.bps, bs: c.bs, samples: c.samples.clone() };
    match kind {
        "F" if !c.samples.is_empty() => {
            let cfg = match c.cfg.to_encoder().into_verified() { Ok(v) => v, Err(_) => return "err-config".into() };
            let per = c.bs * c.ch;
            let blk = &c.samples[0..per.min(c.samples.len())];
            let mut fb = match FrameBuf::with_size(c.ch, c.bs) { Ok(f) => f, Err(_) => return "err-fb".into() };
            if fb.fill_interleaved(blk).is_err() { return "err-fill".into(); }
            let info = match flacenc::component::StreamInfo::new(c.rate, c.ch, c.bps) { Ok(i) => i, Err(_) => return "err-info".into() };
            match flacenc::encode_fixed_size_frame(&cfg, &fb, 0, &info) {
                Ok(f) => { let mut sink = ByteSink::new(); f.write(&mut sink).unwrap(); fnv_bytes(sink.as_slice()) }
                Err(_) => "err-frame".into(),
            }
        }
        _ => {
            if kind == "M" { c2.cfg.mt = true; c2.cfg.workers = Some(2); } else { c2.cfg.mt = false; }
            match s_enc::encode(&c2) {
                Ok(s) => {
                    let bytes = s_enc::stream_bytes(&s);
                    #[cfg(feature = "hdecode")]
                    if kind == "P" {
                        return match flacenc::component::parser::stream::<()>(&bytes) {
                            Ok((_, back)) => { let mut sink = ByteSink::new(); back.write(&mut sink).unwrap(); fnv_bytes(sink.as_slice()) }
                            Err(_) => "parse-err".into(),
                        };
                    }
                    fnv_bytes(&bytes)
                }
                Err(e) => e,
            }
        }
    }
}

fn split_calls(rest: &str) -> Vec<(String, String)> {
    rest.split(" ;; ").map(|b| { let (k, body) = b.split_once(' ').unwrap(); (k.to_string(), body.to_string()) }).collect()
}

pub fn run(id: &str, rest: &str) -> String {
    let calls = split_calls(rest);
    let cs = calls.clone();
    let seq: Vec<String> = std::thread::spawn(move || cs.iter().map(|(k, b)| do_call(k, &s_enc::parse(b))).collect()).join()
        .unwrap_or_else(|_| vec!["panic".to_string()]);
    let fresh: Vec<String> = calls.iter().map(|(k, b)| { let (k, b) = (k.clone(), b.clone());
        std::thread::spawn(move || do_call(&k, &s_enc::parse(&b))).join().unwrap_or_else(|_| "panic".to_string()) }).collect();
    format!("{} seq={} fresh={}", id, seq.join(","), fresh.join(","))
}

/// oracle tokens per call, each computed on a thread of its own
pub fn augment(line: &str, rest: &str) -> String {
    let (head, _) = line.split_at(line.len() - rest.len());
    let bodies: Vec<String> = split_calls(rest).into_iter().map(|(k, b)| {
        if k == "Z" { return format!("{} {} |", k, b); }
        let b2 = b.clone();
        let t = std::thread::spawn(move || std::panic::catch_unwind(|| s_enc::oracle_tokens(&s_enc::parse(&b2)))).join();
        match t { Ok(Ok(t)) => format!("{} {} |{}", k, b, t), _ => format!("{} {} | ORACLE-PANIC", k, b) }
    }).collect();
    format!("{}{}", head, bodies.join(" ;; "))
}
