#![allow(unused_imports)]
//! Correspondence stream CTOR: public component constructors over boundary / inconsistent
//! arguments (C18).  Lists are comma separated, `v*k` stands for k copies of v, `-` is empty.
//!   CTOR <id> RES <po> <block> <warm> <params> <quots> <rems>
//!   CTOR <id> QP <coefs> <order> <shift> <prec>
//!   CTOR <id> CONST <block> <dc> <bps>
//!   CTOR <id> VERB <samples> <bps>
//!   CTOR <id> FIXED <warmup> <bps> <po> <block> <warm> <params> <quots> <rems>
//!   CTOR <id> LPC <warmup> <bps> <coefs> <order> <shift> <prec> <po> <block> <warm> <params> <quots> <rems>
//!   CTOR <id> FH <block> <cha> <bps> <rate> <F|S> <offset>
//!   CTOR <id> FRAME <block> <cha> <bps> <rate> <F|S> <offset> ; <sub> ; <sub> ...   (sub = CONST.. | VERB.. | FIXED.. | LPC..)
//!   CTOR <id> SI <rate> <ch> <bps>
//!   CTOR <id> UNK <tag> <len>
//! Output: `<id> err` | `<id> err-inner` | `<id> panic` |
//!         `<id> ok v=<1|0|panic> cb=<count_bits> w=<bits written|err|panic> p=<same|diff|fail|panic|na> hex=<bytes>`
use crate::rng::Rng;
use crate::s_sink::hex;
use flacenc::bitsink::ByteSink;
use flacenc::component::*;
use flacenc::error::{Verify, VerifyError};
use std::fmt::Write as _;
use std::panic::{catch_unwind, AssertUnwindSafe};

fn plist<T: std::str::FromStr + Clone>(s: &str) -> Vec<T> where <T as std::str::FromStr>::Err: std::fmt::Debug {
    let mut v = vec![];
    if s == "-" { return v; }
    for it in s.split(',') {
        if let Some((a, k)) = it.split_once('*') { let x: T = a.parse().unwrap(); for _ in 0..k.parse::<usize>().unwrap() { v.push(x.clone()); } }
        else { v.push(it.parse().unwrap()); }
    }
    v
}
fn u(s: &str) -> usize { s.parse::<u64>().unwrap() as usize }

fn slist<T: std::fmt::Display + PartialEq>(v: &[T]) -> String {
    if v.is_empty() { return "-".into(); }
    let mut out = String::new(); let mut i = 0;
    while i < v.len() {
        let mut j = i; while j < v.len() && v[j] == v[i] { j += 1; }
        if !out.is_empty() { out.push(','); }
        if j - i > 3 { write!(out, "{}*{}", v[i], j - i).unwrap(); } else { for k in i..j { if k > i { out.push(','); } write!(out, "{}", v[k]).unwrap(); } }
        i = j;
    }
    out
}

// ---------------- generation ----------------
struct ResArgs { po: usize, block: usize, warm: usize, params: Vec<u8>, q: Vec<u32>, r: Vec<u32> }
impl ResArgs { fn s(&self) -> String { format!("{} {} {} {} {} {}", self.po, self.block, self.warm, slist(&self.params), slist(&self.q), slist(&self.r)) } }

fn gen_res(r: &mut Rng, warm: usize, block_hint: Option<usize>, faulty: bool) -> ResArgs {
    let po = r.below(4) as usize;
    let parts = 1usize << po;
    let plen = *r.pick(&[1usize, 2, 4, 5, 8, 12]).max(&((warm + parts - 1) / parts).max(1));
    let plen = plen.max(warm);
    let mut block = block_hint.unwrap_or(parts * plen);
    let mut a = ResArgs { po, block, warm, params: vec![], q: vec![], r: vec![] };
    if let Some(b) = block_hint { // find a partition order that divides the hint
        let mut po2 = po; while po2 > 0 && (b % (1 << po2) != 0 || b / (1 << po2) < warm) { po2 -= 1; }
        a.po = po2; block = b;
    }
    let parts = 1usize << a.po; let plen = block / parts.max(1);
    for _ in 0..parts { a.params.push(r.below(15) as u8); }
    for t in 0..block {
        let p = a.params[(t / plen.max(1)).min(parts - 1)];
        if t < warm { a.q.push(0); a.r.push(0); } else { a.q.push(if r.chance(1, 8) { r.below(40) as u32 } else { r.below(3) as u32 }); a.r.push(if r.chance(1, 6) { ((1u64 << p) - 1) as u32 } else { r.below(1u64 << p) as u32 }); }
    }
    if faulty {
        match r.below(15) {
            13 => { a.block = *r.pick(&[1usize << 40, 1 << 62, usize::MAX]); if !a.q.is_empty() { a.q[0] = *r.pick(&[4u32, 1 << 30]); } }
            0 => a.params.push(3),                               // one parameter too many
            1 => { a.params.pop(); }                             // one too few (possibly none)
            2 => { let k = r.below(a.params.len() as u64) as usize; a.params[k] = *r.pick(&[15u8, 16, 30, 31, 32, 255]); a.r.iter_mut().for_each(|x| *x = 0); }
            3 => a.block += 1,                                   // partition count does not divide the block
            4 => { a.q.push(0); }                                // lengths disagree
            5 => { a.r.pop(); }
            6 => a.warm = plen + 1 + r.below(3) as usize,        // warm-up longer than a partition
            7 => a.po = *r.pick(&[15usize, 16, 17, 64]),         // partition order out of range
            8 => { a.block = 0; a.q.clear(); a.r.clear(); }      // block size 0
            9 => { // a warm-up slot that is not empty: quotient 1, quotients whose set bits leave a u32 when shifted by the first
                   // parameter (k * 2^(32-p0), 2^31), a remainder alone, and quotient/remainder pairs that sum to 2^32 after the shift
                   if a.warm > 0 {
                       let j = r.below(a.warm as u64) as usize; let p0 = a.params.first().copied().unwrap_or(0).min(31) as u32;
                       match r.below(6) {
                           0 => a.q[j] = 1,
                           1 => a.q[j] = if p0 == 0 { 1 << 31 } else { 1u32 << (32 - p0) },
                           2 => a.q[j] = if p0 == 0 { 3 << 30 } else { (1 + r.below(3) as u32) << (32 - p0).min(30) },
                           3 => a.q[j] = 1 << 31,
                           4 => a.r[j] = 1,
                           _ => { if p0 > 0 { a.q[j] = (((1u64 << 32) - (1u64 << p0)) >> p0) as u32; a.r[j] = 1u32 << p0; } else { a.q[j] = u32::MAX; a.r[j] = 1; } }
                       }
                   } else { a.warm = a.block + 5; } }
            10 => { // a remainder that does not fit its partition's parameter: far out, exactly 2^p (the first value that
                    // does not fit) and 2^p + 1; also the last value that fits (2^p - 1, still valid)
                    let k = r.below(a.r.len().max(1) as u64) as usize;
                    if k < a.r.len() {
                        let p = a.params.get((k / plen.max(1)).min(parts - 1)).copied().unwrap_or(0).min(31) as u32;
                        a.r[k] = match r.below(4) { 0 => 1 << 15, 1 => 1u32 << p, 2 => (1u32 << p) + 1, _ => (1u32 << p).saturating_sub(1) };
                    } }
            11 => { a.po += 1; }                                 // order and parameter count disagree
            12 => { if !a.q.is_empty() { let k = r.below(a.q.len() as u64) as usize; a.q[k] = *r.pick(&[65535u32, 65536, 100000]); } }
            _ => { a.block = 32768 * 2; a.q = vec![0; a.block]; a.r = vec![0; a.block]; a.params = vec![0; 1 << a.po]; a.warm = 0; }
        }
    }
    a
}

fn gen_samples(r: &mut Rng, n: usize, bps: usize, faulty: bool) -> Vec<i32> {
    let b = bps.clamp(1, 31);
    let lo = -(1i64 << (b - 1)); let hi = (1i64 << (b - 1)) - 1;
    let mut v: Vec<i32> = (0..n).map(|_| match r.below(6) { 0 => lo as i32, 1 => hi as i32, _ => r.range(lo, hi) as i32 }).collect();
    if faulty && n > 0 { let k = r.below(n as u64) as usize; v[k] = *r.pick(&[(hi + 1) as i32, (lo - 1) as i32, i32::MAX, i32::MIN]); }
    v
}

fn gen_bps(r: &mut Rng, faulty: bool) -> usize {
    if faulty { *r.pick(&[0usize, 1, 7, 10, 11, 14, 26, 27, 28, 32, 33, 64, 255, 256 + 16, 264, (1usize << 32) + 16]) } else { *r.pick(&[8usize, 9, 12, 13, 16, 17, 20, 21, 24, 25]) }
}

struct QpArgs { coefs: Vec<i16>, order: usize, shift: i32, prec: usize }
impl QpArgs { fn s(&self) -> String { format!("{} {} {} {}", slist(&self.coefs), self.order, self.shift, self.prec) } }
fn gen_qp(r: &mut Rng, order: usize, faulty: bool) -> QpArgs {
    let prec = 1 + r.below(15) as usize;
    let lim = 1i64 << (prec - 1);
    let mut a = QpArgs { coefs: (0..order).map(|_| match r.below(5) { 0 => -lim as i16, 1 => (lim - 1) as i16, _ => r.range(-lim, lim - 1) as i16 }).collect(), order, shift: r.below(16) as i32, prec };
    if faulty {
        match r.below(9) {
            0 => a.prec = 0,
            1 => a.prec = *r.pick(&[16usize, 17, 32, 64, 1 << 20]),
            2 => a.shift = *r.pick(&[-1i32, -16, -128, 16, 31, 127]),
            3 => { a.coefs.push(1); }
            4 => { if a.coefs.is_empty() { a.order = 1 } else { a.coefs.pop(); } }
            5 => { if a.prec < 15 && !a.coefs.is_empty() { let k = r.below(a.coefs.len() as u64) as usize; a.coefs[k] = if r.chance(1, 2) { lim as i16 } else { (-lim - 1) as i16 }; } else { a.order += 1 } }
            6 => { a.order = *r.pick(&[25usize, 32, 33, 100]); a.coefs = vec![1; a.order]; }
            7 => { a.order = 33; }
            _ => { a.order = 0; a.coefs.clear(); }
        }
    }
    a
}

fn gen_sub(r: &mut Rng, block: usize, bps: usize, faulty: bool) -> String {
    match r.below(4) {
        0 => { let b = bps.clamp(1, 31); let lo = -(1i64 << (b - 1)); let hi = (1i64 << (b - 1)) - 1;
               let dc = if faulty && r.chance(1, 2) { *r.pick(&[hi + 1, lo - 1, i32::MAX as i64, i32::MIN as i64]) } else { { let x = r.range(lo, hi); *r.pick(&[lo, hi, 0, -1, x]) } };
               let blk = if faulty && r.chance(1, 2) { *r.pick(&[0usize, 32768, 65535, 65536, 65537, 1 << 32]) } else { block };
               format!("CONST {} {} {}", blk, dc, bps) }
        1 => { let n = if faulty && r.chance(1, 3) { *r.pick(&[0usize, 32767, 32768, 40000, 65536]) } else { block };
               let sf = faulty && r.chance(1, 2); let s = gen_samples(r, n, bps, sf);
               format!("VERB {} {}", slist(&s), bps) }
        2 => { let mut order = r.below(5) as usize; let rf = faulty && r.chance(1, 2);
               let res = gen_res(r, order, Some(block.max(order)), rf);
               if faulty && !rf { order = match r.below(4) { 0 => 5, 1 => 6, 2 => order + 1, _ => order.saturating_sub(1) }; }
               let wf = faulty && r.chance(1, 4); let w = gen_samples(r, order, bps, wf);
               format!("FIXED {} {} {}", slist(&w), bps, res.s()) }
        _ => { let big = r.chance(1, 4); let mut order = 1 + r.below(if big { 24 } else { 6 }) as usize; let rf = faulty && r.chance(1, 3); let qf = faulty && !rf && r.chance(1, 2);
               let res = gen_res(r, order, Some(block.max(order)), rf);
               let qp = gen_qp(r, order, qf);
               if faulty && !rf && !qf { order = match r.below(4) { 0 => 0, 1 => order + 1, 2 => order - 1, _ => 33 }; }
               let wf = faulty && r.chance(1, 4); let w = gen_samples(r, order, bps, wf);
               format!("LPC {} {} {} {}", slist(&w), bps, qp.s(), res.s()) }
    }
}

fn gen_header(r: &mut Rng, faulty: bool) -> (String, usize, usize, String) {
    let mut block = match r.below(6) { 0 => *r.pick(&[192usize, 576, 1152, 256, 512, 1024]), 1 => *r.pick(&[1usize, 2, 16, 255, 256, 257]), _ => 4 + r.below(60) as usize };
    let mut cha = match r.below(6) { 0 => "L".to_string(), 1 => "R".into(), 2 => "M".into(), _ => { let big = r.chance(1, 4); format!("I{}", 1 + r.below(if big { 8 } else { 2 })) } };
    let mut bps = *r.pick(&[8usize, 12, 16, 20, 24]);
    let mut rate = match r.below(4) { 0 => *r.pick(&[8000usize, 16000, 22050, 24000, 32000, 44100, 48000, 88200, 96000, 176400, 192000]), 1 => 1000 * (1 + r.below(255)) as usize, 2 => 10 * (1 + r.below(65535)) as usize, _ => 1 + r.below(65535) as usize };
    let mut off = if r.chance(2, 3) { format!("F {}", *r.pick(&[0u64, 1, 127, 128, 2047, 2048, 65535, 65536, (1 << 31) - 1])) } else { format!("S {}", *r.pick(&[0u64, 4096, (1u64 << 31), (1u64 << 36) - 1])) };
    if faulty {
        match r.below(9) {
            0 => block = *r.pick(&[0usize, 32768, 65535, 65536, 65536 + 192, (1 << 32) + 64]),
            1 => cha = format!("I{}", *r.pick(&[0u64, 9, 16, 255])),
            2 => bps = *r.pick(&[0usize, 9, 13, 17, 25, 32, 256 + 16, 264, (1 << 32) + 16]),
            3 => rate = *r.pick(&[0usize, 655351, 655360, 1_000_000, (1usize << 32) + 44100, (1usize << 32), usize::MAX]),
            4 => off = format!("F {}", *r.pick(&[(1u64 << 31), (1u64 << 32) - 1])),
            5 => off = format!("S {}", *r.pick(&[(1u64 << 36), (1u64 << 40), u64::MAX])),
            6 => rate = *r.pick(&[655350usize, 256000, 300000]),
            _ => {}
        }
    }
    (format!("{} {} {} {} {}", block, cha, bps, rate, off), block, bps, cha)
}

fn nchan(cha: &str) -> usize { if let Some(n) = cha.strip_prefix('I') { n.parse().unwrap() } else { 2 } }
fn bps_off(cha: &str, ch: usize) -> usize { match (cha, ch) { ("L", 1) | ("R", 0) | ("M", 1) => 1, _ => 0 } }

pub fn gen(seed: u64, n: usize, out: &mut String) {
    let mut r = Rng::new(seed ^ 0xC70);
    for i in 0..n {
        let faulty = r.chance(1, 2);
        let line = match r.below(12) {
            0 | 1 => { let w = r.below(5) as usize; format!("RES {}", gen_res(&mut r, w, None, faulty).s()) }
            2 => { let big = r.chance(1, 4); let o = r.below(if big { 33 } else { 8 }) as usize; format!("QP {}", gen_qp(&mut r, o, faulty).s()) }
            3 | 4 | 5 | 6 => { let bf = faulty && r.chance(1, 3); let bps = gen_bps(&mut r, bf); let block = 4 + r.below(40) as usize; gen_sub(&mut r, block, bps, faulty) }
            7 => { // a header alone: half of them with a block size from the whole range - every 576*2^k and 256*2^k (also beyond the
                   // code tables' last entries: 9216, 18432, 36864 / 65536), their neighbours, and any size up to 65535
                   let h = gen_header(&mut r, faulty).0;
                   if r.chance(1, 2) {
                       let base = match r.below(3) { 0 => 576usize << r.below(7), 1 => 256usize << r.below(9), _ => 1 + r.below(65535) as usize };
                       let blk = match r.below(4) { 0 => base.saturating_sub(1).max(1), 1 => base + 1, _ => base };
                       let rest = h.split_once(' ').map(|x| x.1.to_string()).unwrap_or_default();
                       format!("FH {} {}", blk, rest)
                   } else { format!("FH {}", h) } }
            8 | 9 => {
                let hf = faulty && r.chance(1, 3);
                let (h, block, bps, cha) = gen_header(&mut r, hf);
                let block = block.min(300);
                let mut nsub = nchan(&cha).min(9);
                let mut s = format!("FRAME {}", h);
                let which = if faulty && !hf { r.below(5) } else { 99 };
                if which == 0 { nsub = if r.chance(1, 2) { nsub + 1 } else { nsub.saturating_sub(1) }; }
                for c in 0..nsub {
                    let mut b = bps + bps_off(&cha, c); let mut blk = block;
                    if which == 1 && c == nsub - 1 { b = if b >= 24 { 16 } else { b + 4 }; }
                    if which == 2 && c == 0 { blk = block + 1; }
                    let sub = gen_sub(&mut r, blk.max(1), b, which == 3 && c == 0);
                    write!(s, " ; {}", sub).unwrap();
                }
                s
            }
            10 => { let rate = if faulty { *r.pick(&[96001usize, 655350, (1 << 32) + 44100]) } else { *r.pick(&[0usize, 1, 44100, 96000]) };
                    let ch = if faulty && r.chance(1, 2) { *r.pick(&[0usize, 9, 258]) } else { 1 + r.below(8) as usize };
                    let bf = faulty && r.chance(1, 2); format!("SI {} {} {}", rate, ch, gen_bps(&mut r, bf)) }
            _ => { let tag = if faulty && r.chance(1, 2) { *r.pick(&[0u64, 127, 128, 255]) } else { 1 + r.below(126) };
                   let len = if faulty { *r.pick(&[(1usize << 24) - 1, 1 << 24, (1 << 24) + 1]) } else { *r.pick(&[0usize, 1, 2, 100, 3000]) };
                   format!("UNK {} {}", tag, len) }
        };
        writeln!(out, "CTOR k{} {}", i, line).unwrap();
    }
}

// ---------------- execution ----------------
#[cfg(not(feature = "hdecode"))]
pub fn run(id: &str, _rest: &str) -> String { format!("{} unsupported-build", id) }

#[cfg(feature = "hdecode")]
mod exec {
use super::*;

enum Built { Err, InnerErr, Ok(Comp) }
enum Comp { Res(Residual, usize, usize), Qp(QuantizedParameters), Sub(SubFrame, usize, usize), Fh(FrameHeader), Frame(Frame, usize, usize), Si(StreamInfo), Unk(MetadataBlockData, usize) }

fn build_res(t: &[&str]) -> Result<Residual, VerifyError> {
    Residual::new(u(t[0]), u(t[1]), u(t[2]), &plist::<u8>(t[3]), &plist::<u32>(t[4]), &plist::<u32>(t[5]))
}
fn build_qp(t: &[&str]) -> Result<QuantizedParameters, VerifyError> {
    QuantizedParameters::new(&plist::<i16>(t[0]), u(t[1]), t[2].parse::<i32>().unwrap() as i8, u(t[3]))
}
/// returns (subframe, block size, bps as declared)
fn build_sub(t: &[&str]) -> Result<Result<(SubFrame, usize, usize), VerifyError>, VerifyError> {
    Ok(match t[0] {
        "CONST" => Constant::new(u(t[1]), t[2].parse::<i64>().unwrap() as i32, u(t[3])).map(|c| (c.into(), u(t[1]), u(t[3]))),
        "VERB" => { let s = plist::<i32>(t[1]); let n = s.len(); Verbatim::new(&s, u(t[2])).map(|c| (c.into(), n, u(t[2]))) }
        "FIXED" => { let res = build_res(&t[3..9])?; let b = u(t[4]); FixedLpc::new(&plist::<i32>(t[1]), res, u(t[2])).map(|c| (c.into(), b, u(t[2]))) }
        "LPC" => { let qp = build_qp(&t[3..7])?; let res = build_res(&t[7..13])?; let b = u(t[8]); Lpc::new(&plist::<i32>(t[1]), qp, res, u(t[2])).map(|c| (c.into(), b, u(t[2]))) }
        _ => panic!("bad sub"),
    })
}
fn build_header(t: &[&str]) -> Result<FrameHeader, VerifyError> {
    let cha = match t[1] { "L" => ChannelAssignment::LeftSide, "R" => ChannelAssignment::RightSide, "M" => ChannelAssignment::MidSide, s => ChannelAssignment::Independent(s[1..].parse::<u64>().unwrap() as u8) };
    let off = if t[4] == "F" { FrameOffset::Frame(t[5].parse::<u64>().unwrap() as u32) } else { FrameOffset::StartSample(t[5].parse().unwrap()) };
    FrameHeader::new(u(t[0]), cha, u(t[2]), u(t[3]), off)
}

fn build(t: &[&str]) -> Built {
    let lift = |r: Result<Comp, VerifyError>| match r { Ok(c) => Built::Ok(c), Err(_) => Built::Err };
    match t[0] {
        "RES" => lift(build_res(&t[1..]).map(|r| Comp::Res(r, u(t[2]), u(t[3])))),
        "QP" => lift(build_qp(&t[1..]).map(Comp::Qp)),
        "CONST" | "VERB" | "FIXED" | "LPC" => match build_sub(t) { Err(_) => Built::InnerErr, Ok(r) => lift(r.map(|(s, b, bps)| Comp::Sub(s, b, bps))) },
        "FH" => lift(build_header(&t[1..]).map(Comp::Fh)),
        "FRAME" => {
            let h = match build_header(&t[1..7]) { Ok(h) => h, Err(_) => return Built::InnerErr };
            let mut subs = vec![];
            let rest = t[7..].join(" ");
            for s in rest.split(" ; ").map(|x| x.trim_start_matches("; ")).filter(|x| !x.is_empty()) {
                let st: Vec<&str> = s.split(' ').collect();
                match build_sub(&st) { Ok(Ok((sf, _, _))) => subs.push(sf), _ => return Built::InnerErr }
            }
            let ch = nchan(t[2]);
            let bps = h.bits_per_sample().unwrap_or(0);
            lift(Frame::new(h, subs.into_iter()).map(|f| Comp::Frame(f, ch, bps)))
        }
        "SI" => lift(StreamInfo::new(u(t[1]), u(t[2]), u(t[3])).map(Comp::Si)),
        "UNK" => { let len = u(t[2]); let tag = t[1].parse::<u64>().unwrap() as u8;
                   let data: Vec<u8> = (0..len).map(|i| ((i * 7 + tag as usize) % 256) as u8).collect();
                   lift(MetadataBlockData::new_unknown(tag, &data).map(|m| Comp::Unk(m, len))) }
        _ => panic!("bad kind"),
    }
}

type BErr<'a> = nom::error::Error<(&'a [u8], usize)>;
fn bitparse<'a, T>(bytes: &'a [u8], p: impl FnMut((&'a [u8], usize)) -> nom::IResult<(&'a [u8], usize), T, BErr<'a>>) -> Option<T> {
    nom::bits::bits::<_, _, BErr<'a>, nom::error::Error<&'a [u8]>, _>(p)(bytes).ok().map(|(_, v)| v)
}

fn observe<T: BitRepr + Verify + std::fmt::Debug>(c: &T, reparse: impl FnOnce(&[u8]) -> Option<String>) -> String {
    let v = catch_unwind(AssertUnwindSafe(|| c.verify().is_ok()));
    let cb = c.count_bits();
    let mut sink = ByteSink::new();
    let w = catch_unwind(AssertUnwindSafe(|| c.write(&mut sink)));
    let (ws, bytes) = match w { Ok(Ok(())) => (format!("{}", sink.len()), sink.as_slice().to_vec()), Ok(Err(_)) => ("err".to_string(), vec![]), Err(_) => ("panic".to_string(), vec![]) };
    let p = if bytes.is_empty() && ws != "0" { "na".to_string() } else {
        let orig = format!("{:?}", c);
        match catch_unwind(AssertUnwindSafe(|| reparse(&bytes))) { Ok(Some(s)) => if s == orig { "same".into() } else { "diff".into() }, Ok(None) => "fail".into(), Err(_) => "panic".into() }
    };
    let hx = if bytes.len() > 4096 { format!("len{}:{}", bytes.len(), crate::s_parse::fnv(&bytes.iter().map(|b| *b as i32).collect::<Vec<_>>())) } else { hex(&bytes) };
    format!("ok v={} cb={} w={} p={} hex={}", match v { Ok(true) => "1", Ok(false) => "0", Err(_) => "panic" }, cb, ws, p, hx)
}

pub fn run(id: &str, rest: &str) -> String {
    let t: Vec<&str> = rest.split(' ').collect();
    let built = match catch_unwind(AssertUnwindSafe(|| build(&t))) { Ok(b) => b, Err(_) => return format!("{} panic", id) };
    use flacenc::component::parser as P;
    let body = match built {
        Built::Err => "err".to_string(),
        Built::InnerErr => "err-inner".to_string(),
        Built::Ok(Comp::Res(c, block, warm)) => observe(&c, |b| bitparse(b, P::residual(block, warm)).map(|x| format!("{:?}", x))),
        // parameters have no serialisation of their own (they are written inside an LPC subframe)
        Built::Ok(Comp::Qp(c)) => { let v = catch_unwind(AssertUnwindSafe(|| c.verify().is_ok()));
            format!("ok v={} cb=0 w=0 p=na hex=-", match v { Ok(true) => "1", Ok(false) => "0", Err(_) => "panic" }) }
        Built::Ok(Comp::Sub(c, block, bps)) => observe(&c, |b| bitparse(b, P::subframe(block, bps)).map(|x| format!("{:?}", x))),
        Built::Ok(Comp::Fh(c)) => observe(&c, |b| P::frame_header::<nom::error::Error<&[u8]>>(true)(b).ok().map(|(_, x)| format!("{:?}", x))),
        Built::Ok(Comp::Frame(c, ch, bps)) => {
            let info = StreamInfo::new(44100, ch, if bps == 0 { 16 } else { bps }).ok();
            observe(&c, |b| info.and_then(|i| P::frame::<nom::error::Error<&[u8]>>(&i, true)(b).ok().map(|(_, x)| format!("{:?}", x))))
        }
        Built::Ok(Comp::Si(c)) => observe(&c, |b| P::stream_info::<nom::error::Error<&[u8]>>(b).ok().map(|(_, x)| format!("{:?}", x))),
        Built::Ok(Comp::Unk(c, len)) => {
            // a metadata payload has no parser of its own: wrap it in a stream and compare whole streams
            let r = {
                let v = catch_unwind(AssertUnwindSafe(|| c.verify().is_ok()));
                let cb = c.count_bits();
                let mut own = ByteSink::new();
                let w = catch_unwind(AssertUnwindSafe(|| c.write(&mut own)));
                let ws = match w { Ok(Ok(())) => format!("{}", own.len()), Ok(Err(_)) => "err".to_string(), Err(_) => "panic".to_string() };
                let p = catch_unwind(AssertUnwindSafe(|| {
                    let mut s = Stream::new(44100, 1, 16).ok()?;
                    s.add_metadata_block(c.clone());
                    let mut sink = ByteSink::new(); s.write(&mut sink).ok()?;
                    let (_, back) = P::stream::<nom::error::Error<&[u8]>>(sink.as_slice()).ok()?;
                    let mut again = ByteSink::new(); back.write(&mut again).ok()?;
                    Some(again.as_slice() == sink.as_slice() && back.count_bits() == s.count_bits())
                }));
                let ps = match p { Ok(Some(true)) => "same", Ok(Some(false)) => "diff", Ok(None) => "fail", Err(_) => "panic" };
                let b = own.as_slice();
                format!("ok v={} cb={} w={} p={} hex=len{}:{}", match v { Ok(true) => "1", Ok(false) => "0", Err(_) => "panic" }, cb, ws, ps, b.len(),
                        crate::s_parse::fnv(&b.iter().map(|x| *x as i32).collect::<Vec<_>>()))
            };
            let _ = len; r
        }
    };
    format!("{} {}", id, body)
}
}
#[cfg(feature = "hdecode")]
pub use exec::run;
