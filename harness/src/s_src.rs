//! Correspondence stream SRC: sample delivery units.
//!   SRC <id> D <ch> <stride> <src> <old>          arrayutils::deinterleave into a buffer holding `old`
//!   SRC <id> L <nb> <hexbytes>                    le_bytes_to_i32s
//!   SRC <id> I <nb> <ints>                        i32s_to_le_bytes
//!   SRC <id> F <ch> <cap> <bps> <i|b> <nb> <first> <second>   FrameBuf + Context filled twice, then read
use crate::rng::Rng;
use crate::s_sink::hex;
use crate::sig;
use flacenc::bitsink::ByteSink;
use flacenc::component::{BitRepr, StreamInfo};
use flacenc::error::Verify;
use flacenc::source::{Context, Fill, FrameBuf};
use std::fmt::Write as _;

fn hexbytes(s: &str) -> Vec<u8> { if s == "-" { vec![] } else { (0..s.len() / 2).map(|i| u8::from_str_radix(&s[2 * i..2 * i + 2], 16).unwrap()).collect() } }

pub fn gen(seed: u64, n: usize, out: &mut String) {
    let mut r = Rng::new(seed ^ 0x5C);
    for i in 0..n {
        match r.below(10) {
            0 | 1 => {
                let ch = 1 + r.below(8) as usize; let stride = *r.pick(&[1usize, 2, 5, 31, 32, 33, 64]);
                let slen = match r.below(4) { 0 => stride * ch, 1 => 0, _ => r.below((stride * ch + 1) as u64) as usize };
                let src: Vec<i32> = (0..slen).map(|_| r.range(-1000, 1000) as i32).collect();
                let old: Vec<i32> = (0..stride * ch).map(|_| r.range(7000, 7999) as i32).collect();
                writeln!(out, "SRC u{} D {} {} {} {}", i, ch, stride, sig::fmt_samples(&src), sig::fmt_samples(&old)).unwrap();
            }
            2 => {
                let nb = *r.pick(&[0usize, 1, 2, 3, 4, 5]); let cnt = r.below(12) as usize;
                let len = if nb > 0 && r.chance(4, 5) { cnt * nb } else { cnt * nb.max(1) + r.below(3) as usize };
                let bytes: Vec<u8> = (0..len).map(|_| match r.below(4) { 0 => 0xFF, 1 => 0x80, 2 => 0x7F, _ => r.below(256) as u8 }).collect();
                writeln!(out, "SRC u{} L {} {}", i, nb, hex(&bytes)).unwrap();
            }
            3 => {
                let nb = *r.pick(&[0usize, 1, 2, 3, 4]); let cnt = r.below(10) as usize;
                let ints: Vec<i32> = (0..cnt).map(|_| match r.below(5) { 0 => i32::MIN, 1 => i32::MAX, 2 => -1, _ => r.next() as i32 }).collect();
                writeln!(out, "SRC u{} I {} {}", i, nb, sig::fmt_samples(&ints)).unwrap();
            }
            _ => {
                let ch = 1 + r.below(8) as usize; let cap = *r.pick(&[32usize, 33, 40, 64]);
                let bps = *r.pick(&[8usize, 12, 16, 20, 24]);
                let declared = (bps + 7) / 8;
                let nb = if r.chance(1, 8) { *r.pick(&[0usize, 1, 2, 3, 4, 5]) } else { declared };
                let n1 = cap * ch;
                let n2 = match r.below(8) { 0 => cap * ch, 1 => (cap + 1) * ch, 2 => 0, 3 => cap * ch + 1, _ => (r.below(cap as u64) as usize) * ch };
                let hi = sig::full_scale(bps); let lo = -hi - 1;
                let mut mk = |n: usize, r: &mut Rng| -> Vec<i32> { (0..n).map(|_| match r.below(6) { 0 => hi as i32, 1 => lo as i32, 2 => -1, _ => r.range(lo, hi) as i32 }).collect() };
                let first = mk(n1, &mut r); let second = mk(n2, &mut r);
                // the same data through both delivery paths (the oracle pairs u<i>i with u<i>b)
                for mode in ["i", "b"] {
                    writeln!(out, "SRC u{}{} F {} {} {} {} {} {} {}", i, mode, ch, cap, bps, mode, nb, sig::fmt_samples(&first), sig::fmt_samples(&second)).unwrap();
                }
            }
        }
    }
}

fn to_bytes(v: &[i32], nb: usize) -> Vec<u8> { let mut b = vec![]; for x in v { b.extend_from_slice(&x.to_le_bytes()[0..nb.min(4)]); } b }

pub fn run(id: &str, rest: &str) -> String {
    let t: Vec<&str> = rest.split(' ').collect();
    match t[0] {
        "D" => {
            let ch: usize = t[1].parse().unwrap(); let stride: usize = t[2].parse().unwrap();
            let src = sig::parse_samples(t[3]); let mut old = sig::parse_samples(t[4]);
            flacenc::verif::arrayutils::deinterleave(&src, ch, stride, &mut old);
            format!("{} ok {}", id, sig::fmt_samples(&old))
        }
        "L" => {
            let nb: usize = t[1].parse().unwrap(); let bytes = hexbytes(t[2]);
            let mut dest = vec![0i32; if nb == 0 { 0 } else { bytes.len() / nb }];
            flacenc::verif::arrayutils::le_bytes_to_i32s(&bytes, &mut dest, nb);
            format!("{} ok {}", id, sig::fmt_samples(&dest))
        }
        "I" => {
            let nb: usize = t[1].parse().unwrap(); let ints = sig::parse_samples(t[2]);
            let mut dest = vec![0u8; ints.len() * nb];
            flacenc::verif::arrayutils::i32s_to_le_bytes(&ints, &mut dest, nb);
            format!("{} ok {}", id, hex(&dest))
        }
        _ => {
            let ch: usize = t[1].parse().unwrap(); let cap: usize = t[2].parse().unwrap(); let bps: usize = t[3].parse().unwrap();
            let bytes_mode = t[4] == "b"; let nb: usize = t[5].parse().unwrap();
            let first = sig::parse_samples(t[6]); let second = sig::parse_samples(t[7]);
            let mut fbc = (FrameBuf::with_size(ch, cap).unwrap(), Context::new(bps, ch));
            let declared = (bps + 7) / 8;
            // the first (full) fill always uses the declared width
            let r1 = if bytes_mode { fbc.fill_le_bytes(&to_bytes(&first, declared), declared) } else { fbc.fill_interleaved(&first) };
            if r1.is_err() { return format!("{} first-err", id); }
            let r2 = if bytes_mode { fbc.fill_le_bytes(&to_bytes(&second, nb), nb) } else { fbc.fill_interleaved(&second) };
            if r2.is_err() { return format!("{} err filled={}", id, fbc.0.filled_size()); }
            let (fb, ctx) = fbc;
            if fb.filled_size() == 0 {
                // an empty block is never encoded by the stream encoder (C17 covers the entry point)
                return format!("{} ok filled=0 total={} frames={} md5={} -", id, ctx.total_samples(),
                               ctx.current_frame_number().map_or(0, |x| x + 1), hex(&ctx.md5_digest()));
            }
            let mut cfg = flacenc::config::Encoder::default();
            cfg.subframe_coding.use_constant = false; cfg.subframe_coding.use_fixed = false; cfg.subframe_coding.use_lpc = false;
            cfg.stereo_coding.use_leftside = false; cfg.stereo_coding.use_rightside = false; cfg.stereo_coding.use_midside = false;
            cfg.multithread = false;
            let cfg = cfg.into_verified().unwrap();
            let info = StreamInfo::new(44100, ch, bps).unwrap();
            let frame = match flacenc::encode_fixed_size_frame(&cfg, &fb, 0, &info) { Ok(f) => f, Err(_) => return format!("{} frame-err filled={}", id, fb.filled_size()) };
            let mut sink = ByteSink::new(); frame.write(&mut sink).unwrap();
            let _ = frame.verify();
            format!("{} ok filled={} total={} frames={} md5={} {}", id, fb.filled_size(), ctx.total_samples(),
                    ctx.current_frame_number().map_or(0, |x| x + 1), hex(&ctx.md5_digest()), hex(sink.as_slice()))
        }
    }
}
