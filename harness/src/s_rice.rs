//! Correspondence stream RICE: the partitioned-Rice parameter search and its cost tables.
//! Cases:  RICE <id> F <warmup> <maxp> <errors>         find_partitioned_rice_parameter
//!         RICE <id> T <folded errors>                  PrcBitTable::from_errors(.., 4)
//!         RICE <id> M <folded a> <folded b>            merge(from_errors(a), from_errors(b), 4)
//!         RICE <id> Z <maxp> <folded errors>           minimizer
use crate::rng::Rng;
use flacenc::verif::rice as vr;
use std::fmt::Write as _;

fn list<T: std::fmt::Display>(v: &[T]) -> String { if v.is_empty() { "-".into() } else { v.iter().map(|x| x.to_string()).collect::<Vec<_>>().join(",") } }
fn parse_list<T: std::str::FromStr>(s: &str) -> Vec<T> where T::Err: std::fmt::Debug { if s == "-" { vec![] } else { s.split(',').map(|x| x.parse().unwrap()).collect() } }

fn gen_errors(r: &mut Rng, n: usize) -> Vec<i32> { let k = r.below(8); gen_errors_kind(r, n, k) }
fn gen_errors_kind(r: &mut Rng, n: usize, kind: u64) -> Vec<i32> {
    let scale: i64 = match r.below(6) { 0 => 1, 1 => 8, 2 => 300, 3 => 1 << 15, 4 => 1 << 22, _ => 1 << 27 };
    let mut v = Vec::with_capacity(n);
    let mut seg_scale = scale;
    for t in 0..n {
        if kind == 5 && t % 64 == 0 { seg_scale = 1i64 << r.below(28); }
        let x: i64 = match kind {
            0 => 0,
            1 => r.range(-scale, scale),
            2 => if r.chance(1, 20) { r.range(-(1 << 30), 1 << 30) } else { r.range(-3, 3) },
            3 => if r.chance(1, 2) { i32::MAX as i64 } else { -(i32::MAX as i64) },
            4 => { let g = r.below(40); let m = 1i64 << (g / 2).min(29); r.range(-m, m) }
            5 => r.range(-seg_scale, seg_scale),
            6 => ((t as i64 * 7919) % (2 * scale + 1)) - scale,
            _ => if t % 2 == 0 { scale } else { -scale },
        };
        v.push(x.max(-(i32::MAX as i64)).min(i32::MAX as i64) as i32);
    }
    v
}
fn gen_folded(r: &mut Rng, n: usize) -> Vec<u32> {
    let big = r.chance(1, 3);
    (0..n).map(|_| if big && r.chance(2, 3) { (1u32 << 28) + (r.next() as u32 >> 4) } else { match r.below(4) { 0 => r.below(16) as u32, 1 => r.below(1 << 16) as u32, 2 => r.next() as u32, _ => u32::MAX } }).collect()
}

pub fn gen(seed: u64, n: usize, out: &mut String) {
    let mut r = Rng::new(seed ^ 0x41CE);
    for i in 0..n {
        match r.below(10) {
            0..=5 => {
                let len = *r.pick(&[64usize, 65, 96, 128, 192, 256, 320, 512, 576, 1024, 1152, 4096, 4608]);
                let len = if r.chance(1, 5) { 64 + r.below(2000) as usize } else { len };
                // long blocks (finest partition order 7..8 and above): level changes every 64 samples make the finest orders win
                let long = r.chance(1, 16);
                let len = if long { *r.pick(&[8192usize, 16384, 24576, 32640, 8192 + 128, 12288]) } else { len };
                let warmup = *r.pick(&[0usize, 1, 2, 4, 8, 12, 24, 32]);
                let maxp = *r.pick(&[0usize, 1, 3, 7, 13, 14, 14]);
                let errs = if long && r.chance(2, 3) { gen_errors_kind(&mut r, len, 5) } else { gen_errors(&mut r, len) };
                writeln!(out, "RICE r{} F {} {} {}", i, warmup, maxp, list(&errs)).unwrap();
            }
            6 | 7 => { let len = *r.pick(&[0usize, 1, 15, 16, 17, 32, 33, 64, 100]); writeln!(out, "RICE r{} T {}", i, list(&gen_folded(&mut r, len))).unwrap(); }
            8 => { let la = *r.pick(&[1usize, 16, 40]); let lb = *r.pick(&[1usize, 16, 40]);
                   writeln!(out, "RICE r{} M {} {}", i, list(&gen_folded(&mut r, la)), list(&gen_folded(&mut r, lb))).unwrap(); }
            _ => { let len = *r.pick(&[1usize, 16, 50]); writeln!(out, "RICE r{} Z {} {}", i, r.below(15), list(&gen_folded(&mut r, len))).unwrap(); }
        }
    }
}

pub fn run(id: &str, rest: &str) -> String {
    let t: Vec<&str> = rest.split(' ').collect();
    match t[0] {
        "F" => {
            let warmup: usize = t[1].parse().unwrap(); let maxp: usize = t[2].parse().unwrap();
            let errs: Vec<i32> = parse_list(t[3]);
            let (order, ps, bits) = vr::find(&errs, warmup, maxp);
            format!("{} ok order={} ps={} bits={}", id, order, list(&ps), bits)
        }
        "T" => { let e: Vec<u32> = parse_list(t[1]); format!("{} ok {}", id, list(&vr::table_from_errors(&e, 4))) }
        "M" => { let a: Vec<u32> = parse_list(t[1]); let b: Vec<u32> = parse_list(t[2]);
                 format!("{} ok {}", id, list(&vr::table_merge(vr::table_from_errors(&a, 4), vr::table_from_errors(&b, 4), 4))) }
        _ => { let maxp: usize = t[1].parse().unwrap(); let e: Vec<u32> = parse_list(t[2]);
               let (p, bits) = vr::table_minimizer(vr::table_from_errors(&e, 4), maxp); format!("{} ok p={} bits={}", id, p, bits) }
    }
}
