//! Signal grammar and configuration generator/codec shared by several streams.
use crate::rng::Rng;
use flacenc::config;
use std::fmt::Write as _;

#[derive(Clone, Debug)]
pub struct Cfg {
    pub bs: usize, pub mt: bool, pub workers: Option<usize>,
    pub ls: bool, pub rs: bool, pub ms: bool,
    pub uc: bool, pub uf: bool, pub ul: bool,
    pub fo: usize, pub os: Option<usize>,
    pub lo: usize, pub qp: usize, pub dm: bool, pub ma: usize,
    pub win: Option<u32>, pub mp: usize,
}
impl Cfg {
    pub fn default() -> Cfg {
        Cfg { bs: 4096, mt: false, workers: None, ls: true, rs: true, ms: true, uc: true, uf: true, ul: true,
              fo: 4, os: Some(16), lo: 10, qp: 15, dm: false, ma: 0, win: Some(0.4f32.to_bits()), mp: 14 }
    }
    pub fn encode(&self) -> String {
        format!("bs={};mt={};w={};ls={};rs={};ms={};uc={};uf={};ul={};fo={};os={};lo={};qp={};dm={};ma={};win={};mp={}",
            self.bs, self.mt as u8, self.workers.map_or("-".to_string(), |w| w.to_string()),
            self.ls as u8, self.rs as u8, self.ms as u8, self.uc as u8, self.uf as u8, self.ul as u8,
            self.fo, self.os.map_or("bc".to_string(), |p| p.to_string()), self.lo, self.qp, self.dm as u8, self.ma,
            self.win.map_or("r".to_string(), |b| format!("t{}", b)), self.mp)
    }
    pub fn decode(s: &str) -> Cfg {
        let mut c = Cfg::default();
        for kv in s.split(';') {
            let (k, v) = kv.split_once('=').unwrap();
            let b = || v == "1";
            match k {
                "bs" => c.bs = v.parse().unwrap(), "mt" => c.mt = b(),
                "w" => c.workers = if v == "-" { None } else { Some(v.parse().unwrap()) },
                "ls" => c.ls = b(), "rs" => c.rs = b(), "ms" => c.ms = b(),
                "uc" => c.uc = b(), "uf" => c.uf = b(), "ul" => c.ul = b(),
                "fo" => c.fo = v.parse().unwrap(),
                "os" => c.os = if v == "bc" { None } else { Some(v.parse().unwrap()) },
                "lo" => c.lo = v.parse().unwrap(), "qp" => c.qp = v.parse().unwrap(),
                "dm" => c.dm = b(), "ma" => c.ma = v.parse().unwrap(),
                "win" => c.win = if v == "r" { None } else { Some(v[1..].parse().unwrap()) },
                "mp" => c.mp = v.parse().unwrap(),
                _ => panic!("cfg key {}", k),
            }
        }
        c
    }
    pub fn from_encoder(e: &config::Encoder) -> Cfg {
        Cfg {
            bs: e.block_size, mt: e.multithread, workers: e.workers.map(|w| w.get()),
            ls: e.stereo_coding.use_leftside, rs: e.stereo_coding.use_rightside, ms: e.stereo_coding.use_midside,
            uc: e.subframe_coding.use_constant, uf: e.subframe_coding.use_fixed, ul: e.subframe_coding.use_lpc,
            fo: e.subframe_coding.fixed.max_order,
            os: match e.subframe_coding.fixed.order_sel { config::OrderSel::BitCount => None, config::OrderSel::ApproxEnt { partitions } => Some(partitions), #[allow(unreachable_patterns)] _ => None },
            lo: e.subframe_coding.qlpc.lpc_order, qp: e.subframe_coding.qlpc.quant_precision,
            dm: e.subframe_coding.qlpc.use_direct_mse, ma: e.subframe_coding.qlpc.mae_optimization_steps,
            win: match e.subframe_coding.qlpc.window { config::Window::Rectangle => None, config::Window::Tukey { alpha } => Some(alpha.to_bits()), #[allow(unreachable_patterns)] _ => None },
            mp: e.subframe_coding.prc.max_parameter,
        }
    }
    pub fn to_encoder(&self) -> config::Encoder {
        let mut e = config::Encoder::default();
        e.block_size = self.bs;
        e.multithread = self.mt;
        e.workers = self.workers.and_then(std::num::NonZeroUsize::new);
        e.stereo_coding.use_leftside = self.ls;
        e.stereo_coding.use_rightside = self.rs;
        e.stereo_coding.use_midside = self.ms;
        e.subframe_coding.use_constant = self.uc;
        e.subframe_coding.use_fixed = self.uf;
        e.subframe_coding.use_lpc = self.ul;
        e.subframe_coding.fixed.max_order = self.fo;
        e.subframe_coding.fixed.order_sel = match self.os {
            None => config::OrderSel::BitCount,
            Some(p) => config::OrderSel::ApproxEnt { partitions: p },
        };
        e.subframe_coding.qlpc.lpc_order = self.lo;
        e.subframe_coding.qlpc.quant_precision = self.qp;
        e.subframe_coding.qlpc.use_direct_mse = self.dm;
        e.subframe_coding.qlpc.mae_optimization_steps = self.ma;
        e.subframe_coding.qlpc.window = match self.win {
            None => config::Window::Rectangle,
            Some(b) => config::Window::Tukey { alpha: f32::from_bits(b) },
        };
        e.subframe_coding.prc.max_parameter = self.mp;
        e
    }
}

/// A random configuration accepted by verification (multithread off unless asked).
pub fn gen_valid_cfg(r: &mut Rng) -> Cfg {
    let mut c = Cfg::default();
    if r.chance(1, 4) { return c; }
    c.ls = r.chance(3, 4); c.rs = r.chance(3, 4); c.ms = r.chance(3, 4);
    c.uc = r.chance(3, 4); c.uf = r.chance(3, 4); c.ul = r.chance(3, 4);
    c.fo = r.below(5) as usize;
    c.os = if r.chance(1, 2) { None } else { Some(*r.pick(&[1usize, 2, 3, 16, 17, 63, 64])) };
    c.lo = *r.pick(&[1usize, 2, 3, 8, 10, 12, 23, 24]);
    c.qp = *r.pick(&[1usize, 2, 3, 4, 5, 8, 12, 14, 15]);
    c.win = match r.below(5) { 0 => None, 1 => Some(0f32.to_bits()), 2 => Some(1f32.to_bits()), 3 => Some(0.4f32.to_bits()),
                                _ => Some(((r.below(1001) as f32) / 1000.0).to_bits()) };
    c.mp = *r.pick(&[0usize, 1, 2, 4, 7, 13, 14, 14, 14]);
    c
}

pub fn full_scale(bps: usize) -> i64 { (1i64 << (bps - 1)) - 1 }

/// One channel of `n` samples of width `bps` from the signal grammar.
pub fn gen_channel(r: &mut Rng, bps: usize, n: usize) -> Vec<i32> {
    let hi = full_scale(bps); let lo = -hi - 1;
    let clamp = |x: i64| x.max(lo).min(hi) as i32;
    let mut out: Vec<i32> = Vec::with_capacity(n);
    while out.len() < n {
        let seg = if r.chance(2, 3) { n - out.len() } else { 1 + r.below((n - out.len()) as u64) as usize };
        let kind = r.below(11);
        let level = match r.below(4) { 0 => 1 + r.below(4) as i64, 1 => 1 << r.below(bps as u64 - 1), 2 => hi / 2, _ => hi };
        let mut state: f64 = 0.0; let mut state2: f64 = 0.0;
        let freq = 0.001 + (r.below(1000) as f64) / 2100.0;
        let dc = r.range(lo, hi);
        let t0 = out.len();
        for t in 0..seg {
            let v: i64 = match kind {
                0 => 0,
                1 => dc,
                2 => if r.chance(1, 2) { hi } else { lo },
                3 => if (t0 + t) % 2 == 0 { hi } else { lo },
                4 => if r.chance(1, 37) { if r.chance(1, 2) { hi } else { lo } } else { 0 },
                5 => r.range(-level.min(hi), level.min(hi)),
                6 => ((level as f64) * (freq * (t as f64) * 6.283185307179586).sin()) as i64 + r.range(-(level / 64).max(0) - 1, (level / 64).max(0) + 1),
                7 => dc / 2 + (t as i64) * (level / (seg as i64 + 1)).max(1),
                8 => { // narrow-band AR(2) driven by noise
                    let e = r.range(-level / 8 - 1, level / 8 + 1) as f64;
                    let y = 1.8 * (freq * 3.0).cos() * state - 0.81 * state2 + e;
                    state2 = state; state = y; y as i64 }
                9 => { let p = (t as i64 * t as i64) % (2 * level + 1) - level; p }
                _ => if r.chance(1, 5) { r.range(lo, hi) } else { r.range(-3, 3) },
            };
            out.push(clamp(v));
        }
    }
    out
}

/// Interleaved samples for `ch` channels; stereo gets correlated variants sometimes.
pub fn gen_signal(r: &mut Rng, ch: usize, bps: usize, n: usize) -> Vec<i32> {
    let mut chans: Vec<Vec<i32>> = Vec::new();
    for c in 0..ch {
        if c == 1 && ch == 2 {
            let hi = full_scale(bps); let lo = -hi - 1;
            match r.below(5) {
                0 => { chans.push(chans[0].clone()); continue; }
                1 => { let v: Vec<i32> = chans[0].iter().map(|x| ((-(*x as i64)).max(lo).min(hi)) as i32).collect(); chans.push(v); continue; }
                2 => { let v: Vec<i32> = chans[0].iter().map(|x| ((*x as i64 + r.range(-2, 2)).max(lo).min(hi)) as i32).collect(); chans.push(v); continue; }
                _ => {}
            }
        }
        chans.push(gen_channel(r, bps, n));
    }
    let mut out = Vec::with_capacity(n * ch);
    for t in 0..n { for c in 0..ch { out.push(chans[c][t]); } }
    out
}

pub fn fmt_samples(s: &[i32]) -> String {
    if s.is_empty() { return "-".into(); }
    let mut o = String::with_capacity(s.len() * 6);
    for (i, v) in s.iter().enumerate() { if i > 0 { o.push(','); } write!(o, "{}", v).unwrap(); }
    o
}
pub fn parse_samples(s: &str) -> Vec<i32> {
    if s == "-" { return vec![]; }
    s.split(',').map(|x| x.parse().unwrap()).collect()
}
