//! Correspondence stream PARSE: the stream parser on emitted streams and on mutants of them.
//! Case: PARSE <id> <orig-audio-hash> <kind> <hexbytes>
//!   kind: orig | flip | burst | trunc | random | meta
use crate::rng::Rng;
use crate::s_enc;
use crate::s_sink::hex;
use crate::sig;
#[cfg(feature = "hdecode")]
use flacenc::component::{BitRepr, Decode};
#[cfg(feature = "hdecode")]
use flacenc::bitsink::ByteSink;
#[cfg(feature = "hdecode")]
use flacenc::error::Verify;
use std::fmt::Write as _;

#[cfg(feature = "hdecode")]
fn hexbytes(s: &str) -> Vec<u8> { if s == "-" { vec![] } else { (0..s.len() / 2).map(|i| u8::from_str_radix(&s[2 * i..2 * i + 2], 16).unwrap()).collect() } }

pub fn fnv(v: &[i32]) -> String {
    let mut h: u64 = 0xcbf29ce484222325;
    for x in v { for b in x.to_le_bytes() { h ^= b as u64; h = h.wrapping_mul(0x100000001b3); } }
    format!("{:016x}", h)
}

/// every class of the sample-rate code: the 11 fixed codes, kHz in one byte, Hz and 10 Hz in two bytes, and
/// rates only STREAMINFO can carry
fn pick_rate(r: &mut Rng) -> usize {
    match r.below(6) {
        0 => *r.pick(&[8000usize, 16000, 22050, 24000, 32000, 44100, 48000, 88200, 96000]),
        1 => 1000 * (1 + r.below(95)) as usize,
        2 => 10 * (1 + r.below(9599)) as usize,
        3 => 1 + r.below(65535) as usize,
        4 => *r.pick(&[65537usize, 70001, 95999, 88201]),
        _ => *r.pick(&[1usize, 255, 256, 1000, 65535, 65540, 95990, 96000]),
    }
}

fn small_stream(r: &mut Rng) -> Option<(Vec<u8>, String)> {
    let mut c = sig::gen_valid_cfg(r);
    let ch = *r.pick(&[1usize, 1, 2, 2, 3]);
    let bps = *r.pick(&[8usize, 16, 16, 24]);
    let bs = *r.pick(&[32usize, 64, 64, 96, 128, 192, 255, 256, 257, 576]);
    let n = bs + r.below((bs + 20) as u64) as usize;
    let s = sig::gen_signal(r, ch, bps, n);
    c.bs = bs;
    let case = s_enc::Case { cfg: c, rate: pick_rate(r), ch, bps, bs, samples: s.clone() };
    let stream = s_enc::encode(&case).ok()?;
    Some((s_enc::stream_bytes(&stream), fnv(&s)))
}

pub fn gen(seed: u64, n: usize, out: &mut String) {
    let mut r = Rng::new(seed ^ 0x9A45E);
    let mut i = 0;
    // VERIF_PARSE_EXHAUSTIVE=1: every single-bit flip of every frame byte of each base stream
    let exhaustive = std::env::var("VERIF_PARSE_EXHAUSTIVE").map_or(false, |v| v == "1");
    while i < n {
        let (bytes, h) = match small_stream(&mut r) { Some(x) => x, None => continue };
        writeln!(out, "PARSE p{} {} orig {}", i, h, hex(&bytes)).unwrap(); i += 1;
        let frames_at = 42usize;
        if bytes.len() <= frames_at { continue; }
        let nbits = (bytes.len() - frames_at) * 8;
        if exhaustive {
            for b in 0..nbits { let mut m = bytes.clone(); m[frames_at + b / 8] ^= 0x80 >> (b % 8);
                writeln!(out, "PARSE p{} {} flip {}", i, h, hex(&m)).unwrap(); i += 1; }
            continue;
        }
        for _ in 0..24 {
            if i >= n { break; }
            let mut m = bytes.clone();
            let kind = match r.below(10) {
                0..=4 => { let b = r.below(nbits as u64) as usize; m[frames_at + b / 8] ^= 0x80 >> (b % 8); "flip" }
                5..=7 => { // a run of 2..8 bits starting anywhere, first and last bit of the run flipped, the rest random
                    let len = 2 + r.below(7) as usize; let b0 = r.below((nbits - len) as u64) as usize;
                    for k in 0..len { if k == 0 || k == len - 1 || r.chance(1, 2) { let b = b0 + k; m[frames_at + b / 8] ^= 0x80 >> (b % 8); } }
                    "burst" }
                8 => { let cut = r.below(m.len() as u64) as usize; m.truncate(cut); "trunc" }
                _ => { if r.chance(1, 2) { let k = r.below(42) as usize; m[k] ^= 1 << r.below(8); "meta" }
                       else { let l = r.below(200) as usize; m = (0..l).map(|_| r.below(256) as u8).collect(); if r.chance(1, 2) && l >= 4 { m[0] = 0x66; m[1] = 0x4c; m[2] = 0x61; m[3] = 0x43; } "random" } }
            };
            writeln!(out, "PARSE p{} {} {} {}", i, h, kind, hex(&m)).unwrap(); i += 1;
        }
    }
}

#[cfg(not(feature = "hdecode"))]
pub fn run(id: &str, _rest: &str) -> String { format!("{} unsupported-build", id) }

#[cfg(feature = "hdecode")]
pub fn run(id: &str, rest: &str) -> String {
    let t: Vec<&str> = rest.split(' ').collect();
    let bytes = hexbytes(t[2]);
    match flacenc::component::parser::stream::<()>(&bytes) {
        Err(_) => format!("{} err", id),
        Ok((rem, stream)) => {
            if !rem.is_empty() { return format!("{} ok-with-rest", id); }
            let mut sink = ByteSink::new();
            let reser = std::panic::catch_unwind(std::panic::AssertUnwindSafe(|| stream.write(&mut sink)));
            let reser_s = match reser { Ok(Ok(())) => hex(sink.as_slice()), Ok(Err(_)) => "write-err".to_string(), Err(_) => "write-panic".to_string() };
            let v = std::panic::catch_unwind(std::panic::AssertUnwindSafe(|| stream.verify().is_ok()));
            let dec = std::panic::catch_unwind(std::panic::AssertUnwindSafe(|| {
                let mut all: Vec<i32> = vec![];
                for k in 0..stream.frame_count() { all.extend(stream.frame(k).unwrap().decode()); }
                fnv(&all)
            }));
            format!("{} ok {} v={} dec={} cb={}", id, reser_s,
                    match v { Ok(true) => "1", Ok(false) => "0", Err(_) => "panic" },
                    dec.unwrap_or_else(|_| "panic".to_string()), stream.count_bits())
        }
    }
}
