//! Correspondence stream PARSE: the stream parser on emitted streams and on mutants of them.
//! Case: PARSE <id> <orig-audio-hash> <kind> <hexbytes>
//!   kind: orig | flip | burst | trunc | random | meta | hdr (a header field of the first frame rewritten, CRC-8 and CRC-16 recomputed)
use crate::rng::Rng;
use crate::s_enc;
use crate::s_sink::hex;
use crate::sig;
#[cfg(feature = "hdecode")]
use flacenc::component::{BitRepr, Decode};
#[cfg(feature = "hdecode")]
use flacenc::bitsink::ByteSink;
#[cfg(feature = "hdecode")]
use flacenc::error::Verify;
use std::fmt::Write as _;

#[cfg(feature = "hdecode")]
fn hexbytes(s: &str) -> Vec<u8> { if s == "-" { vec![] } else { (0..s.len() / 2).map(|i| u8::from_str_radix(&s[2 * i..2 * i + 2], 16).unwrap()).collect() } }

pub fn fnv(v: &[i32]) -> String {
    let mut h: u64 = 0xcbf29ce484222325;
    for x in v { for b in x.to_le_bytes() { h ^= b as u64; h = h.wrapping_mul(0x100000001b3); } }
    format!("{:016x}", h)
}

/// every class of the sample-rate code: the 11 fixed codes, kHz in one byte, Hz and 10 Hz in two bytes, and
/// rates only STREAMINFO can carry
fn pick_rate(r: &mut Rng) -> usize {
    match r.below(6) {
        0 => *r.pick(&[8000usize, 16000, 22050, 24000, 32000, 44100, 48000, 88200, 96000]),
        1 => 1000 * (1 + r.below(95)) as usize,
        2 => 10 * (1 + r.below(9599)) as usize,
        3 => 1 + r.below(65535) as usize,
        4 => *r.pick(&[65537usize, 70001, 95999, 88201]),
        _ => *r.pick(&[1usize, 255, 256, 1000, 65535, 65540, 95990, 96000]),
    }
}

fn small_stream(r: &mut Rng) -> Option<(Vec<u8>, String, usize)> {
    let mut c = sig::gen_valid_cfg(r);
    let ch = *r.pick(&[1usize, 1, 2, 2, 2, 3, 4, 5, 6, 7, 8, 8]);
    let bps = *r.pick(&[8usize, 12, 16, 16, 20, 24]);
    let bs = if ch > 3 { *r.pick(&[32usize, 64, 96]) } else { *r.pick(&[32usize, 64, 64, 96, 128, 192, 255, 256, 257, 576]) };
    let n = bs + r.below((bs + 20) as u64) as usize;
    let s = sig::gen_signal(r, ch, bps, n);
    c.bs = bs;
    let case = s_enc::Case { cfg: c, rate: pick_rate(r), ch, bps, bs, samples: s.clone() };
    let stream = s_enc::encode(&case).ok()?;
    let f0 = stream.frame(0).map_or(0, |f| flacenc::component::BitRepr::count_bits(f) / 8);
    Some((s_enc::stream_bytes(&stream), fnv(&s), f0))
}

fn crc8(bs: &[u8]) -> u8 { let mut r = 0u8; for b in bs { r ^= *b; for _ in 0..8 { r = if r & 0x80 != 0 { (r << 1) ^ 0x07 } else { r << 1 }; } } r }
fn crc16(bs: &[u8]) -> u16 { let mut r = 0u16; for b in bs { r ^= (*b as u16) << 8; for _ in 0..8 { r = if r & 0x8000 != 0 { (r << 1) ^ 0x8005 } else { r << 1 }; } } r }
fn utf8like(v: u64) -> Vec<u8> {
    if v < 0x80 { return vec![v as u8]; }
    let lims = [1u64 << 11, 1 << 16, 1 << 21, 1 << 26, 1 << 31, 1 << 36];
    let k = 1 + lims.iter().position(|l| v < *l).unwrap_or(5);          // continuation bytes
    let lead_mask: u8 = if k == 6 { 0xFE } else { (0xFFu16 << (7 - k)) as u8 };
    let mut out = vec![lead_mask | ((v >> (6 * k)) as u8 & (0x7F >> (k + 1)).max(0))];
    for j in (0..k).rev() { out.push(0x80 | ((v >> (6 * j)) & 0x3F) as u8); }
    out
}

/// Rewrites one field of the first frame's header (the frame starts at byte 42, is `flen` bytes long) and makes both
/// CRCs consistent again, so that the parser gets past them: reserved / unusual codes, every class of coded number.
fn rewrite_header(r: &mut Rng, bytes: &[u8], flen: usize) -> Option<Vec<u8>> {
    let at = 42usize;
    if flen < 8 || bytes.len() < at + flen { return None; }
    let f = &bytes[at..at + flen];
    let (mut b1, mut b2, mut b3) = (f[1], f[2], f[3]);
    let nlen = match f[4] { 0..=0x7F => 1, 0xC0..=0xDF => 2, 0xE0..=0xEF => 3, 0xF0..=0xF7 => 4, 0xF8..=0xFB => 5, 0xFC..=0xFD => 6, 0xFE => 7, _ => return None };
    let xlen = |bs: u8, sr: u8| -> usize { (match bs { 6 => 1, 7 => 2, _ => 0 }) + (match sr { 12 => 1, 13 | 14 => 2, _ => 0 }) };
    let old_hlen = 4 + nlen + xlen(b2 >> 4, b2 & 15) + 1;
    if flen < old_hlen + 2 { return None; }
    let mut num: Vec<u8> = f[4..4 + nlen].to_vec();
    match r.below(8) {
        0 => b2 = (b2 & 0x0F) | ((r.below(16) as u8) << 4),                 // block-size code, incl. reserved 0
        1 => b2 = (b2 & 0xF0) | (r.below(16) as u8),                        // sample-rate code, incl. invalid 15
        2 => b3 = (b3 & 0x0F) | ((r.below(16) as u8) << 4),                 // channel assignment, incl. reserved 11..15
        3 => b3 = (b3 & 0xF1) | ((r.below(8) as u8) << 1),                  // sample-size code, incl. reserved 3
        4 => b3 ^= 1,                                                       // reserved bit
        5 => b1 ^= if r.chance(1, 2) { 1 } else { 2 },                      // blocking strategy / reserved bit of the sync word
        _ => { let lims = [0u64, 1 << 7, 1 << 11, 1 << 16, 1 << 21, 1 << 26, 1 << 31, 1 << 36];
               let k = 1 + r.below(7) as usize; let v = match r.below(3) { 0 => lims[k - 1], 1 => lims[k] - 1, _ => lims[k - 1] + r.below(lims[k] - lims[k - 1]) };
               num = utf8like(v); }
    }
    let mut h: Vec<u8> = vec![f[0], b1, b2, b3];
    h.extend_from_slice(&num);
    for _ in 0..xlen(b2 >> 4, b2 & 15) { h.push(r.below(256) as u8); }
    let c8 = crc8(&h); h.push(c8);
    let mut frame = h;
    frame.extend_from_slice(&f[old_hlen..flen - 2]);
    let c16 = crc16(&frame); frame.push((c16 >> 8) as u8); frame.push(c16 as u8);
    let mut out = bytes[..at].to_vec(); out.extend_from_slice(&frame); out.extend_from_slice(&bytes[at + flen..]);
    Some(out)
}

pub fn gen(seed: u64, n: usize, out: &mut String) {
    let mut r = Rng::new(seed ^ 0x9A45E);
    let mut i = 0;
    // VERIF_PARSE_EXHAUSTIVE=1: every single-bit flip of every frame byte of each base stream
    let exhaustive = std::env::var("VERIF_PARSE_EXHAUSTIVE").map_or(false, |v| v == "1");
    while i < n {
        let (bytes, h, f0len) = match small_stream(&mut r) { Some(x) => x, None => continue };
        writeln!(out, "PARSE p{} {} orig {}", i, h, hex(&bytes)).unwrap(); i += 1;
        let frames_at = 42usize;
        if bytes.len() <= frames_at { continue; }
        let nbits = (bytes.len() - frames_at) * 8;
        if exhaustive {
            for b in 0..nbits { let mut m = bytes.clone(); m[frames_at + b / 8] ^= 0x80 >> (b % 8);
                writeln!(out, "PARSE p{} {} flip {}", i, h, hex(&m)).unwrap(); i += 1; }
            continue;
        }
        for _ in 0..24 {
            if i >= n { break; }
            let mut m = bytes.clone();
            let kind = match r.below(12) {
                10 | 11 => { match rewrite_header(&mut r, &bytes, f0len) { Some(x) => { m = x; "hdr" } None => "orig" } }
                0..=4 => { let b = r.below(nbits as u64) as usize; m[frames_at + b / 8] ^= 0x80 >> (b % 8); "flip" }
                5..=7 => { // a run of 2..8 bits starting anywhere, first and last bit of the run flipped, the rest random
                    let len = 2 + r.below(7) as usize; let b0 = r.below((nbits - len) as u64) as usize;
                    for k in 0..len { if k == 0 || k == len - 1 || r.chance(1, 2) { let b = b0 + k; m[frames_at + b / 8] ^= 0x80 >> (b % 8); } }
                    "burst" }
                8 => { let cut = r.below(m.len() as u64) as usize; m.truncate(cut); "trunc" }
                _ => { if r.chance(1, 2) { let k = r.below(42) as usize; m[k] ^= 1 << r.below(8); "meta" }
                       else { let l = r.below(200) as usize; m = (0..l).map(|_| r.below(256) as u8).collect(); if r.chance(1, 2) && l >= 4 { m[0] = 0x66; m[1] = 0x4c; m[2] = 0x61; m[3] = 0x43; } "random" } }
            };
            writeln!(out, "PARSE p{} {} {} {}", i, h, kind, hex(&m)).unwrap(); i += 1;
        }
    }
}

#[cfg(not(feature = "hdecode"))]
pub fn run(id: &str, _rest: &str) -> String { format!("{} unsupported-build", id) }

#[cfg(feature = "hdecode")]
pub fn run(id: &str, rest: &str) -> String {
    let t: Vec<&str> = rest.split(' ').collect();
    let bytes = hexbytes(t[2]);
    match flacenc::component::parser::stream::<()>(&bytes) {
        Err(_) => format!("{} err", id),
        Ok((rem, stream)) => {
            if !rem.is_empty() { return format!("{} ok-with-rest", id); }
            let mut sink = ByteSink::new();
            let reser = std::panic::catch_unwind(std::panic::AssertUnwindSafe(|| stream.write(&mut sink)));
            let reser_s = match reser { Ok(Ok(())) => hex(sink.as_slice()), Ok(Err(_)) => "write-err".to_string(), Err(_) => "write-panic".to_string() };
            let v = std::panic::catch_unwind(std::panic::AssertUnwindSafe(|| stream.verify().is_ok()));
            let dec = std::panic::catch_unwind(std::panic::AssertUnwindSafe(|| {
                let mut all: Vec<i32> = vec![];
                for k in 0..stream.frame_count() { all.extend(stream.frame(k).unwrap().decode()); }
                fnv(&all)
            }));
            format!("{} ok {} v={} dec={} cb={}", id, reser_s,
                    match v { Ok(true) => "1", Ok(false) => "0", Err(_) => "panic" },
                    dec.unwrap_or_else(|_| "panic".to_string()), stream.count_bits())
        }
    }
}
