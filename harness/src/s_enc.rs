//! Correspondence stream ENC: whole-stream encoding (single thread) of generated inputs.
//! Case:  ENC <id> <cfg> <rate> <channels> <bps> <bs> <samples>
//! Augmented for the model:  ... | <oracle tokens>
use crate::rng::Rng;
use crate::s_sink::hex;
use crate::sig::{self, Cfg};
use flacenc::bitsink::ByteSink;
use flacenc::component::{BitRepr, ChannelAssignment, Frame, Stream, SubFrame};
use flacenc::error::Verify;
use flacenc::source::MemSource;
use std::fmt::Write as _;

pub const BLOCK_SIZES: [usize; 16] = [32, 33, 63, 64, 65, 100, 128, 192, 255, 256, 257, 320, 576, 1000, 1024, 1152];
pub const RATES: [usize; 12] = [1, 8000, 16000, 22050, 44100, 48000, 96000, 95800, 16001, 12345, 65535, 65540];

pub fn gen_input(r: &mut Rng, small: bool) -> (usize, usize, usize, usize, Vec<i32>) {
    let ch = match r.below(10) { 0..=2 => 1, 3..=6 => 2, 7 => 3, 8 => 1 + r.below(8) as usize, _ => 8 };
    let bps = *r.pick(&[8usize, 12, 16, 16, 20, 24, 24]);
    let bs = if r.chance(1, 8) { 32 + r.below(700) as usize } else { *r.pick(&BLOCK_SIZES) };
    let bs = if small { bs.min(320) } else { bs };
    let rate = if r.chance(1, 6) { 1 + r.below(96000) as usize } else { *r.pick(&RATES) };
    let nblocks = r.below(4) as usize;
    let tail = match r.below(6) { 0 => 0, 1 => 1, 2 => 15, 3 => 16, 4 => 17, _ => r.below(bs as u64) as usize };
    let n = nblocks * bs + tail.min(bs - 1);
    let n = if ch >= 3 { n.min(2 * bs + 17) } else { n };
    let sig = sig::gen_signal(r, ch, bps, n);
    (rate, ch, bps, bs, sig)
}

pub fn gen(seed: u64, n: usize, out: &mut String) {
    let mut r = Rng::new(seed ^ 0xE1C);
    for i in 0..n {
        let mut c = sig::gen_valid_cfg(&mut r);
        if i % 64 == 21 {
            // a LARGE block (the sizes beyond 1152 up to the maximum 32767: finest Rice partition orders 6..9, long warm-up-free
            // partitions, 2-byte block-size field), one full block or a full block and a tail, 1-2 channels
            let mut r2 = Rng::new(seed ^ 0xB16B ^ ((i / 64) as u64) << 24);
            let bs = *r2.pick(&[2304usize, 4096, 4608, 8192, 16384, 32767, 4097, 12288]);
            let ch = if bs > 8192 { 1 } else { 1 + r2.below(2) as usize }; let bps = *r2.pick(&[8usize, 16, 24]);
            let n = if r2.chance(1, 2) { bs } else { bs + 1 + r2.below(200) as usize };
            // scaled down to |x| <= 7: the frames stay small (the model's byte sink is quadratic in the frame length)
            let s0 = sig::gen_signal(&mut r2, ch, bps, n);
            let mx = s0.iter().map(|x| x.unsigned_abs()).max().unwrap_or(0);
            let sh = (32 - mx.leading_zeros()).saturating_sub(3);
            let s: Vec<i32> = s0.iter().map(|x| x >> sh).collect();
            c.bs = bs;
            writeln!(out, "ENC e{} {} {} {} {} {} {}", i, c.encode(), *r2.pick(&[44100usize, 96000, 12345]), ch, bps, bs, sig::fmt_samples(&s)).unwrap();
            continue;
        }
        let (rate, ch, bps, bs, s) = gen_input(&mut r, i % 4 != 0);
        c.bs = bs;
        writeln!(out, "ENC e{} {} {} {} {} {} {}", i, c.encode(), rate, ch, bps, bs, sig::fmt_samples(&s)).unwrap();
    }
}

pub struct Case { pub cfg: Cfg, pub rate: usize, pub ch: usize, pub bps: usize, pub bs: usize, pub samples: Vec<i32> }
pub fn parse(rest: &str) -> Case {
    let rest = rest.split(" | ").next().unwrap();
    let t: Vec<&str> = rest.split(' ').collect();
    Case { cfg: Cfg::decode(t[0]), rate: t[1].parse().unwrap(), ch: t[2].parse().unwrap(), bps: t[3].parse().unwrap(),
           bs: t[4].parse().unwrap(), samples: sig::parse_samples(t[5]) }
}

pub fn sub_summary(s: &SubFrame) -> String {
    match s {
        SubFrame::Constant(_) => "C".into(),
        SubFrame::Verbatim(_) => "V".into(),
        SubFrame::FixedLpc(f) => format!("F{}p{}", f.order(), f.residual().partition_order()),
        SubFrame::Lpc(l) => format!("L{}p{}", l.order(), l.residual().partition_order()),
    }
}
pub fn frame_summary(f: &Frame) -> String {
    let tag = match f.header().channel_assignment() {
        ChannelAssignment::Independent(n) => (*n as usize) - 1,
        ChannelAssignment::LeftSide => 8, ChannelAssignment::RightSide => 9, ChannelAssignment::MidSide => 10,
    };
    let subs: Vec<String> = (0..f.subframe_count()).map(|i| sub_summary(f.subframe(i).unwrap())).collect();
    format!("{}:{}", tag, subs.join(","))
}
pub fn stream_summary(s: &Stream) -> String {
    let v: Vec<String> = (0..s.frame_count()).map(|i| frame_summary(s.frame(i).unwrap())).collect();
    if v.is_empty() { "-".into() } else { v.join("/") }
}
pub fn stream_bytes(s: &Stream) -> Vec<u8> {
    let mut sink = ByteSink::new();
    s.write(&mut sink).unwrap();
    sink.into_inner()
}

pub fn encode(c: &Case) -> Result<Stream, String> {
    let cfg = c.cfg.to_encoder().into_verified().map_err(|e| format!("cfg:{:?}", e.1).chars().take(40).collect::<String>())?;
    let src = MemSource::from_samples(&c.samples, c.ch, c.bps, c.rate);
    flacenc::encode_with_fixed_block_size(&cfg, src, c.bs).map_err(|e| err_kind(&e))
}
pub fn err_kind(e: &flacenc::error::EncodeError) -> String {
    match e {
        flacenc::error::EncodeError::Source(_) => "err-source".into(),
        flacenc::error::EncodeError::Config(_) => "err-config".into(),
        #[allow(unreachable_patterns)]
        _ => "err-other".into(),
    }
}

pub fn run(id: &str, rest: &str) -> String {
    let c = parse(rest);
    match encode(&c) {
        Ok(s) => {
            let v = if s.verify().is_ok() { "v" } else { "NV" };
            format!("{} ok {} {} cb={} {}", id, stream_summary(&s), v, s.count_bits(), hex(&stream_bytes(&s)))
        }
        Err(e) => format!("{} {}", id, e),
    }
}

/// Oracle answers for one block: the implementation's own estimators, asked through the hooks.
pub fn oracle_tokens(c: &Case) -> String {
    let enc = c.cfg.to_encoder();
    let sub = enc.subframe_coding.clone();
    let mut out = String::new();
    let per = c.bs * c.ch;
    let nblocks = if per == 0 { 0 } else { (c.samples.len() + per - 1) / per };
    for f in 0..nblocks {
        let blk = &c.samples[f * per..((f + 1) * per).min(c.samples.len())];
        let n = blk.len() / c.ch;
        let mut variants: Vec<(usize, Vec<i32>)> = (0..c.ch).map(|k| (k, (0..n).map(|t| blk[t * c.ch + k]).collect())).collect();
        if c.ch == 2 {
            let l = variants[0].1.clone(); let r = variants[1].1.clone();
            variants.push((8, l.iter().zip(r.iter()).map(|(a, b)| (a + b) >> 1).collect()));
            variants.push((9, l.iter().zip(r.iter()).map(|(a, b)| a - b).collect()));
        }
        for (var, sigv) in variants {
            if sigv.len() < 64 { continue; }
            let mut ents: Vec<String> = vec![];
            if let Some(parts) = c.cfg.os {
                if c.cfg.uf && parts >= 1 {
                    let errs = flacenc::verif::coding::fixed_errors(&sigv);
                    for k in 0..=c.cfg.fo.min(4) {
                        ents.push(flacenc::verif::coding::entropy_estimate(&errs[k], k, parts).to_string());
                    }
                }
            }
            let q = if c.cfg.ul {
                let subc = sub.clone(); let sv = sigv.clone();
                // fresh thread: thread-local caches of the estimator cannot leak between queries
                let (coefs, shift, prec) = std::thread::spawn(move || flacenc::verif::coding::qlpc_params(&subc, &sv)).join().unwrap();
                let cs: Vec<String> = coefs.iter().map(|x| x.to_string()).collect();
                format!("{};{};{}", cs.join(","), shift, prec)
            } else { "-".into() };
            write!(out, " O:{}:{}:{}:{}", f, var, if ents.is_empty() { "-".to_string() } else { ents.join(",") }, q).unwrap();
        }
    }
    out
}

pub fn augment(line: &str, rest: &str) -> String {
    let c = parse(rest);
    let r = std::panic::catch_unwind(|| oracle_tokens(&c));
    match r { Ok(t) => format!("{} |{}", line, t), Err(_) => format!("{} | ORACLE-PANIC", line) }
}

// ---------------------------------------------------------------------------------------
// DLV: the same inputs delivered in different ways (integer / packed-byte fill, with / without
// length hint, single- / multi-threaded with W workers from the configuration or from the
// FLACENC_WORKERS override).  Case: DLV <id> <mode> <cfg> <rate> <ch> <bps> <bs> <samples>
// mode = (i|b)(0|1)(s|m<W>|e<W>)

use flacenc::error::SourceError;
use flacenc::source::{Fill, Source};

pub struct VarSource {
    pub samples: Vec<i32>, pub ch: usize, pub bps: usize, pub rate: usize,
    pub pos: usize, pub bytes_mode: bool, pub hint: bool,
    pub fail_at: Option<usize>, pub reads: usize, pub hint_extra: usize,
}
impl Source for VarSource {
    fn channels(&self) -> usize { self.ch }
    fn bits_per_sample(&self) -> usize { self.bps }
    fn sample_rate(&self) -> usize { self.rate }
    fn read_samples<F: Fill>(&mut self, block_size: usize, dest: &mut F) -> Result<usize, SourceError> {
        let k = self.reads; self.reads += 1;
        if Some(k) == self.fail_at { return Err(SourceError::from_unknown()); }
        let begin = (self.pos * self.ch).min(self.samples.len());
        let end = ((self.pos + block_size) * self.ch).min(self.samples.len());
        let src = &self.samples[begin..end];
        if self.bytes_mode {
            let nb = (self.bps + 7) / 8;
            let mut bytes = Vec::with_capacity(src.len() * nb);
            for v in src { bytes.extend_from_slice(&v.to_le_bytes()[0..nb]); }
            dest.fill_le_bytes(&bytes, nb)?;
        } else {
            dest.fill_interleaved(src)?;
        }
        let n = (end - begin) / self.ch;
        self.pos += n;
        Ok(n)
    }
    fn len_hint(&self) -> Option<usize> { if self.hint { Some(self.samples.len() / self.ch + self.hint_extra) } else { None } }
}

pub fn gen_dlv(seed: u64, n: usize, out: &mut String) {
    let mut r = Rng::new(seed ^ 0xD17);
    for i in 0..n {
        if i % 200 == 7 || i % 200 == 8 {
            // a LONG stream: more than 2048 frames of 32 samples (frame numbers cross the 1-, 2- and 3-byte classes of the coded
            // number), no LPC (keeps the estimator oracle list short), small noise, a short last frame; once single-threaded, once
            // multi-threaded on the same input
            let mut r2 = Rng::new(seed ^ 0x10C6 ^ ((i / 200) as u64) << 20);
            let mut c = sig::Cfg::default(); c.bs = 32; c.ul = false; c.fo = 1 + r2.below(4) as usize;
            let frames = 2049 + r2.below(300) as usize; let tail = 1 + r2.below(31) as usize;
            let s: Vec<i32> = (0..frames * 32 + tail).map(|_| r2.range(-9, 9) as i32).collect();
            let th = if i % 200 == 7 { "s" } else { "m2" };
            writeln!(out, "DLV d{} i1{} {} {} {} {} {} {}", i, th, c.encode(), 44100, 1, 8, 32, sig::fmt_samples(&s)).unwrap();
            continue;
        }
        if i % 200 == 57 || i % 200 == 58 {
            // a WIDE input: 3/5/6/7 channels at 24 bits with ONE block (plus a short tail) that holds more than 16384 interleaved
            // samples and more than 64 KiB of sample bytes, no length hint, integer delivery, no predictors; once single- and once
            // multi-threaded on the same input
            let mut r2 = Rng::new(seed ^ 0x71DE ^ ((i / 200) as u64) << 20);
            let (ch, bs) = [(7usize, 3200usize), (5, 4400), (3, 7300), (6, 3700)][(i / 200 + seed as usize) % 4];
            let bps = 24;
            let mut c = sig::Cfg::default(); c.bs = bs; c.ul = false; c.fo = 1;
            let n = bs + 1 + r2.below(40) as usize;
            // quiet noise: the frames stay small (the model's byte sink is quadratic in the frame length)
            let s: Vec<i32> = (0..n * ch).map(|_| r2.range(-3, 3) as i32).collect();
            let th = if i % 200 == 57 { "s" } else { "m2" };
            writeln!(out, "DLV d{} i0{} {} {} {} {} {} {}", i, th, c.encode(), 48000, ch, bps, bs, sig::fmt_samples(&s)).unwrap();
            continue;
        }
        let mut c = sig::gen_valid_cfg(&mut r);
        let (rate, ch, bps, bs, s) = gen_input(&mut r, true);
        c.bs = bs;
        let fill = if r.chance(1, 2) { "i" } else { "b" };
        // VERIF_DLV_LYING_HINT=1 (set by the C20 check only): 1 case in 6 has a source whose length hint is WRONG (5 more samples
        // than it delivers); the model is not consulted for those, the feature builds are compared with each other
        let lying = std::env::var("VERIF_DLV_LYING_HINT").map_or(false, |v| v == "1");
        let hint = if lying && r.chance(1, 6) { 2 } else { r.below(2) };
        let th = match r.below(6) { 0 | 1 => "s".to_string(), 2 => "m1".into(), 3 => format!("m{}", 2 + r.below(6)), 4 => "m16".into(), _ => format!("e{}", 1 + r.below(5)) };
        writeln!(out, "DLV d{} {}{}{} {} {} {} {} {} {}", i, fill, hint, th, c.encode(), rate, ch, bps, bs, sig::fmt_samples(&s)).unwrap();
    }
}

static ENV_LOCK: std::sync::Mutex<()> = std::sync::Mutex::new(());

pub fn run_dlv(id: &str, rest: &str) -> String {
    let (mode, rest2) = rest.split_once(' ').unwrap();
    let mut c = parse(rest2);
    let mb = mode.as_bytes();
    let bytes_mode = mb[0] == b'b'; let hint = mb[1] != b'0'; let hint_extra = if mb[1] == b'2' { 5 } else { 0 };
    let th = &mode[2..];
    let _g = ENV_LOCK.lock().unwrap_or_else(|e| e.into_inner());
    std::env::remove_var("FLACENC_WORKERS");
    if th.starts_with('m') { c.cfg.mt = true; c.cfg.workers = Some(th[1..].parse().unwrap()); }
    else if th.starts_with('e') { c.cfg.mt = true; c.cfg.workers = None; std::env::set_var("FLACENC_WORKERS", &th[1..]); }
    else { c.cfg.mt = false; }
    let cfg = match c.cfg.to_encoder().into_verified() { Ok(v) => v, Err(_) => return format!("{} err-config", id) };
    let src = VarSource { samples: c.samples.clone(), ch: c.ch, bps: c.bps, rate: c.rate, pos: 0, bytes_mode, hint, fail_at: None, reads: 0, hint_extra };
    let r = flacenc::encode_with_fixed_block_size(&cfg, src, c.bs);
    std::env::remove_var("FLACENC_WORKERS");
    match r {
        Ok(s) => {
            let v = if s.verify().is_ok() { "v" } else { "NV" };
            format!("{} ok {} {} cb={} {}", id, stream_summary(&s), v, s.count_bits(), hex(&stream_bytes(&s)))
        }
        Err(e) => format!("{} {}", id, err_kind(&e)),
    }
}

// ---------------------------------------------------------------------------------------
// FAIL: a user sink that fails at its k-th call while a stream is written.
// Case: FAIL <id> <kspec> <s|m> <cfg> <rate> <ch> <bps> <bs> <samples>
//   kspec = a<k> (absolute call index) | p<permille> (k = total_calls * permille / 1000); A<k> / P<permille>: the sink fails only once
use crate::usersink::UserSink;

pub fn gen_fail(seed: u64, n: usize, out: &mut String) {
    let mut r = Rng::new(seed ^ 0xFA11);
    let mut i = 0;
    while i < n {
        let mut c = sig::gen_valid_cfg(&mut r);
        let (rate, ch, bps, bs, s) = gen_input(&mut r, true);
        if s.len() > 1500 { continue; }
        c.bs = bs;
        let samples = sig::fmt_samples(&s);
        let mode0 = if r.chance(1, 3) { "m" } else { "s" };
        for q in 0..6 {
            let kspec = match r.below(4) { 0 => format!("a{}", r.below(60)), 1 => "p1000".to_string(), _ => format!("p{}", r.below(1000)) };
            // upper case: the sink fails only ONCE (a transient error; later operations would be accepted)
            let kspec = if r.chance(1, 2) { kspec.to_uppercase() } else { kspec };
            // half of the cases write the whole stream, the other half one component directly to the failing sink
            let mode = if q % 2 == 0 { mode0.to_string() } else {
                match r.below(7) { 6 => format!("x{}", 1 + r.below(3)), 0 => format!("f{}", r.below(4)), 1 => format!("h{}", r.below(4)),
                                   2 | 3 => format!("u{}.{}", r.below(4), r.below(8)), _ => format!("r{}.{}", r.below(4), r.below(8)) } };
            writeln!(out, "FAIL f{} {} {} {} {} {} {} {} {}", i, kspec, mode, c.encode(), rate, ch, bps, bs, samples).unwrap();
            i += 1;
        }
    }
}

/// One component written to (a) a recording sink, (b) a byte sink, (c) a sink failing at call k, (d) a byte sink again.
fn fail_one<T: BitRepr>(id: &str, comp: &T, kspec: &str) -> String {
    let mut probe = UserSink::new(None); probe.record_ops = false;
    if comp.write(&mut probe).is_err() { return format!("{} probe-err", id); }
    let mut first = ByteSink::new();
    let reference = match comp.write(&mut first) { Ok(()) => crate::s_hist::fnv_bytes(first.as_slice()), Err(_) => "err".to_string() };
    let total = probe.ops.len();
    let once = kspec.starts_with('A') || kspec.starts_with('P');
    let k = if kspec.starts_with('a') || kspec.starts_with('A') { kspec[1..].parse::<usize>().unwrap() } else { total * kspec[1..].parse::<usize>().unwrap() / 1000 };
    let mut sink = UserSink::new(Some(k)); sink.once = once;
    let r = comp.write(&mut sink);
    let verdict = match r {
        Ok(()) => "ok".to_string(),
        Err(flacenc::error::OutputError::Sink(_)) => "err-sink".to_string(),
        Err(_) => "err-other".to_string(),
    };
    // accepted calls: too long to print in full; print count, a digest of the calls and the bits
    let mut h: u64 = 0xcbf29ce484222325;
    for o in &sink.ops { for b in o.bytes() { h ^= b as u64; h = h.wrapping_mul(0x100000001b3); } h ^= 0x20; h = h.wrapping_mul(0x100000001b3); }
    // afterwards the same component is written once more, on the same thread, into a healthy sink: a failed
    // write must not leave anything behind that changes a later one
    let mut again = ByteSink::new();
    let retry = match comp.write(&mut again) { Ok(()) => crate::s_hist::fnv_bytes(again.as_slice()), Err(_) => "err".to_string() };
    format!("{} {} k={} total={} accepted={} calls={:016x} bits={} ref={} retry={}", id, verdict, k, total, sink.ops.len(), h, sink.bits.len(), reference, retry)
}

/// mode: s | m (whole stream, single / multi thread) | x<k> whole stream with k further metadata blocks | f<i> frame i | h<i> header of frame i | u<i>.<j> subframe j of
/// frame i | r<i>.<j> the residual of that subframe (the subframe itself when it has none); indices are taken modulo
/// the number of frames / subframes.  Components are written DIRECTLY to the failing user sink.
pub fn run_fail(id: &str, rest: &str) -> String {
    let t: Vec<&str> = rest.splitn(3, ' ').collect();
    let (kspec, mode) = (t[0], t[1]);
    let mut c = parse(t[2]);
    if mode == "m" { c.cfg.mt = true; c.cfg.workers = Some(2); } else if mode != "s" { c.cfg.mt = false; }
    let mut stream = match encode(&c) { Ok(s) => s, Err(e) => return format!("{} enc-{}", id, e) };
    if mode == "s" || mode == "m" { return fail_one(id, &stream, kspec); }
    if let Some(k) = mode.strip_prefix('x') {
        // the whole stream with k further (unknown-type) metadata blocks between STREAMINFO and the frames
        let k: usize = k.parse().unwrap_or(1);
        for b in 0..k {
            let tag = 2 + b; let len = 3 + 5 * b;
            let data: Vec<u8> = (0..len).map(|j| ((tag * 31 + j * 7) % 256) as u8).collect();
            stream.add_metadata_block(flacenc::component::MetadataBlockData::new_unknown(tag as u8, &data).unwrap());
        }
        return fail_one(id, &stream, kspec);
    }
    let (kind, idx) = mode.split_at(1);
    let mut it = idx.split('.');
    let i: usize = it.next().unwrap_or("0").parse().unwrap_or(0);
    let j: usize = it.next().unwrap_or("0").parse().unwrap_or(0);
    if stream.frame_count() == 0 { return format!("{} no-component", id); }
    let frame = stream.frame(i % stream.frame_count()).unwrap();
    match kind {
        "f" => fail_one(id, frame, kspec),
        "h" => fail_one(id, frame.header(), kspec),
        _ => {
            let sf = frame.subframe(j % frame.subframe_count()).unwrap();
            if kind == "r" {
                match sf {
                    flacenc::component::SubFrame::FixedLpc(x) => return fail_one(id, x.residual(), kspec),
                    flacenc::component::SubFrame::Lpc(x) => return fail_one(id, x.residual(), kspec),
                    _ => {}
                }
            }
            fail_one(id, sf, kspec)
        }
    }
}
