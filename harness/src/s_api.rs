//! Correspondence stream API: argument validation of the public entry points (C17).
//!   API <id> SI <rate> <ch> <bps>                         StreamInfo::new
//!   API <id> FB <ch> <size>                               FrameBuf::with_size
//!   API <id> FI <ch> <cap> <n>                            FrameBuf::fill_interleaved with n samples
//!   API <id> FL <ch> <cap> <bps> <len> <nb>               (FrameBuf, Context)::fill_le_bytes
//!   API <id> FR <frame_number> <bad-sample:0|1>           encode_fixed_size_frame
//!   API <id> ST <mt:0|1> <rate> <ch> <bps> <bs> <n> <bad> encode_with_fixed_block_size (bad: -1 | position | 10^6+k = every 32 samples)
use crate::rng::Rng;
use crate::s_enc::VarSource;
use flacenc::component::StreamInfo;
use flacenc::error::Verify;
use flacenc::source::{Context, Fill, FrameBuf};
use std::fmt::Write as _;

const U: [u64; 6] = [0, 1, 255, 256, 65535, 65536];

pub fn gen(seed: u64, n: usize, out: &mut String) {
    let mut r = Rng::new(seed ^ 0xA91);
    let wrap = |r: &mut Rng, good: u64| -> u64 { match r.below(4) { 0 => (1u64 << 8) + good, 1 => (1u64 << 16) + good, 2 => (1u64 << 32) + good, _ => u64::MAX } };
    for i in 0..n {
        match r.below(6) {
            0 => {
                let rate = match r.below(5) { 0 => *r.pick(&[0u64, 1, 95999, 96000, 96001, 655350, 655351, 1 << 20]), 1 => wrap(&mut r, 44100), _ => 44100 };
                let ch = match r.below(5) { 0 => *r.pick(&[0u64, 1, 8, 9, 255]), 1 => wrap(&mut r, 2), _ => 1 + r.below(8) };
                let bps = match r.below(5) { 0 => *r.pick(&[0u64, 7, 8, 10, 11, 12, 14, 15, 16, 18, 19, 20, 22, 23, 24, 26, 27, 28, 32, 33, 255]), 1 => wrap(&mut r, 16), _ => *r.pick(&[8u64, 12, 16, 20, 24]) };
                writeln!(out, "API a{} SI {} {} {}", i, rate, ch, bps).unwrap();
            }
            1 => {
                let ch = match r.below(4) { 0 => *r.pick(&[0u64, 8, 9, 256, 257]), 1 => wrap(&mut r, 2), _ => 1 + r.below(8) };
                let size = match r.below(4) { 0 => *r.pick(&[0u64, 1, 31, 32, 32767, 32768, 65535, 65536, 65568]), 1 => wrap(&mut r, 64), _ => 32 + r.below(1000) };
                writeln!(out, "API a{} FB {} {}", i, ch, size).unwrap();
            }
            2 => {
                let ch = 1 + r.below(8); let cap = *r.pick(&[32u64, 33, 64]);
                let n = match r.below(5) { 0 => cap * ch, 1 => cap * ch + 1, 2 => (cap + 1) * ch, 3 => (cap + 8) * ch, _ => r.below(cap * ch + 1) };
                writeln!(out, "API a{} FI {} {} {}", i, ch, cap, n).unwrap();
            }
            3 => {
                let ch = 1 + r.below(8); let cap = *r.pick(&[32u64, 64]); let bps = *r.pick(&[8u64, 12, 16, 20, 24]);
                let declared = (bps + 7) / 8;
                let nb = if r.chance(1, 2) { declared } else { r.below(7) };
                let cnt = match r.below(4) { 0 => cap * ch, 1 => cap * ch + 1, 2 => (cap + 2) * ch, _ => r.below(cap * ch + 1) };
                let len = cnt * nb.max(1) + if r.chance(1, 6) { 1 } else { 0 };
                writeln!(out, "API a{} FL {} {} {} {} {}", i, ch, cap, bps, len, nb).unwrap();
            }
            4 => {
                let fnum = match r.below(4) { 0 => *r.pick(&[0u64, 1, (1 << 31) - 1, 1 << 31, (1 << 31) + 1, (1u64 << 32) - 1, 1 << 32, (1 << 32) + 5]), 1 => wrap(&mut r, 3), _ => r.below(1 << 31) };
                // sample selector: 0 all valid, 1 far out, 2 max+1, 3 min-1, 4 i32::MIN, 5 i32::MAX, 6 max (valid), 7 min (valid)
                writeln!(out, "API a{} FR {} {}", i, fnum, r.below(8)).unwrap();
            }
            _ => {
                let mt = r.below(2);
                let rate = match r.below(6) { 0 => *r.pick(&[96000u64, 96001, 1 << 20]), 1 => wrap(&mut r, 44100), _ => 44100 };
                let ch = match r.below(6) { 0 => *r.pick(&[0u64, 8, 9]), 1 => wrap(&mut r, 2), _ => 1 + r.below(3) };
                let bps = match r.below(6) { 0 => *r.pick(&[0u64, 7, 10, 26, 32, 33]), 1 => wrap(&mut r, 16), _ => *r.pick(&[8u64, 16, 24]) };
                let bs = match r.below(6) { 0 => *r.pick(&[0u64, 1, 16, 31, 32, 32767, 32768, 40000, 65535, 65536, 65600]), 1 => wrap(&mut r, 64), _ => *r.pick(&[32u64, 64, 100]) };
                let n = if r.chance(1, 4) { 300 + r.below(700) } else { r.below(300) };
                // bad: -1 all samples valid | p < 10^6: one invalid sample at position p | 10^6 + k: an invalid sample in EVERY block
                // (every k-th .. sample; more failing blocks than the multi-threaded encoder has frame buffers)
                let bad = match r.below(8) { 0 | 1 => r.below(n.max(1)) as i64, 2 => 1_000_000 + r.below(32) as i64, _ => -1 };
                writeln!(out, "API a{} ST {} {} {} {} {} {} {}", i, mt, rate, ch, bps, bs, n, bad).unwrap();
            }
        }
    }
    let _ = U;
}

fn verdict<T, E>(r: Result<T, E>) -> &'static str { if r.is_ok() { "ok" } else { "err" } }

pub fn run(id: &str, rest: &str) -> String {
    let t: Vec<&str> = rest.split(' ').collect();
    let u = |s: &str| -> usize { s.parse::<u64>().unwrap() as usize };
    match t[0] {
        "SI" => format!("{} {}", id, verdict(StreamInfo::new(u(t[1]), u(t[2]), u(t[3])))),
        "FB" => format!("{} {}", id, verdict(FrameBuf::with_size(u(t[1]), u(t[2])))),
        "FI" => {
            let mut fb = FrameBuf::with_size(u(t[1]), u(t[2])).unwrap();
            let r = fb.fill_interleaved(&vec![0i32; u(t[3])]);
            format!("{} {} filled={}", id, verdict(r), fb.filled_size())
        }
        "FL" => {
            let mut fbc = (FrameBuf::with_size(u(t[1]), u(t[2])).unwrap(), Context::new(u(t[3]), u(t[1])));
            let r = fbc.fill_le_bytes(&vec![0u8; u(t[4])], u(t[5]));
            format!("{} {}", id, verdict(r))
        }
        "FR" => {
            let ch = 2; let bs = 64;
            let mut fb = FrameBuf::with_size(ch, bs).unwrap();
            let mut s = vec![0i32; ch * bs];
            match t[2] { "1" => s[17] = 1 << 20, "2" => s[17] = 32768, "3" => s[18] = -32769, "4" => s[17] = i32::MIN, "5" => s[18] = i32::MAX,
                         "6" => s[17] = 32767, "7" => s[18] = -32768, _ => {} }
            fb.fill_interleaved(&s).unwrap();
            let cfg = flacenc::config::Encoder::default().into_verified().unwrap();
            let info = StreamInfo::new(44100, ch, 16).unwrap();
            format!("{} {}", id, verdict(flacenc::encode_fixed_size_frame(&cfg, &fb, u(t[1]), &info)))
        }
        _ => {
            let mut cfg = flacenc::config::Encoder::default();
            cfg.multithread = t[1] == "1"; cfg.workers = std::num::NonZeroUsize::new(2);
            let cfg = cfg.into_verified().unwrap();
            let (rate, ch, bps, bs, n) = (u(t[2]), u(t[3]), u(t[4]), u(t[5]), u(t[6]));
            let bad: i64 = t[7].parse().unwrap();
            let nch = if ch == 0 || ch > 64 { 1 } else { ch };
            let mut samples = vec![0i32; n * nch];
            if bad >= 0 && !samples.is_empty() {
                let lim: i64 = if (1..=31).contains(&bps) { 1i64 << (bps - 1) } else { 1 << 15 };
                let v = match bad % 4 { 0 => i32::MAX, 1 => i32::MIN, 2 => lim as i32, _ => (-lim - 1) as i32 };
                if bad >= 1_000_000 {
                    let k = (bad - 1_000_000) as usize; let step = 32 * nch;
                    let mut p = (k * nch).min(samples.len() - 1);
                    while p < samples.len() { samples[p] = v; p += step; }
                } else {
                    let p = (bad as usize * nch).min(samples.len() - 1);
                    samples[p] = v;
                }
            }
            let src = VarSource { samples, ch, bps, rate, pos: 0, bytes_mode: false, hint: true, fail_at: None, reads: 0, hint_extra: 0 };
            let (tx, rx) = std::sync::mpsc::channel();
            std::thread::spawn(move || {
                let r = std::panic::catch_unwind(std::panic::AssertUnwindSafe(|| flacenc::encode_with_fixed_block_size(&cfg, src, bs)));
                let _ = tx.send(match r { Ok(Ok(_)) => "ok", Ok(Err(_)) => "err", Err(_) => "panic" });
            });
            match rx.recv_timeout(std::time::Duration::from_secs(15)) { Ok(v) => format!("{} {}", id, v), Err(_) => format!("{} hang", id) }
        }
    }
}
