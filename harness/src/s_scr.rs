//! Correspondence stream SCR: scratch-state clients run on explicit stale contents (C10).
//!   SCR <id> RICE <stale_errors> <ntables> <stale_ps> <stale_min_ps> <warm> <maxp> <signal>
//!   SCR <id> PLANES <stale0>/<stale1>/<stale2>/<stale3>/<stale4> <signal>
//!   SCR <id> CACHE <alpha|r>:<size>,...           lookups on one thread, each compared with a direct computation
//!   SCR <id> KEY <lo> <hi>                        window_fingerprint over all alpha bit patterns lo..hi
//!   SCR <id> QERR <stale> <coefs> <shift> <prec> <signal>   compute_error on a reused buffer holding <stale>
use crate::rng::Rng;
use crate::sig;
use std::fmt::Write as _;

fn lst<T: std::fmt::Display>(v: &[T]) -> String { if v.is_empty() { "-".into() } else { v.iter().map(|x| x.to_string()).collect::<Vec<_>>().join(",") } }
fn pl<T: std::str::FromStr>(s: &str) -> Vec<T> where T::Err: std::fmt::Debug { if s == "-" { vec![] } else { s.split(',').map(|x| x.parse().unwrap()).collect() } }

pub fn gen(seed: u64, n: usize, out: &mut String) {
    let mut r = Rng::new(seed ^ 0x5C2);
    // the whole key domain first: alpha bits 0 ..= 0x3F800000 (all non-negative floats <= 1.0) in 32 slices
    let top: u64 = 0x3F80_0000 + 1;
    for k in 0..32u64 { writeln!(out, "SCR sk{} KEY {} {}", k, top * k / 32, top * (k + 1) / 32).unwrap(); }
    for i in 0..n {
        match r.below(6) {
            5 => {
                // QLPC error buffer: coefficients of precision 2..15, shift 1..15 (0 only with small signals), signals that
                // are small, large (24/25 bit), or sit right at the boundary  maxabs * sum|coef| = 2^31 - 1  between the
                // i32 path and the 64-bit path of compute_error
                let n = *r.pick(&[1usize, 2, 16, 63, 64, 65, 100, 192, 256]);
                let order = (1 + r.below(12) as usize).min(n);
                let prec = 2 + r.below(14) as usize;
                let lim: i64 = (1i64 << (prec - 1)) - 1;
                let coefs: Vec<i64> = (0..order).map(|_| match r.below(4) { 0 => lim, 1 => -lim - 1 + 1, _ => r.range(-lim, lim) }).collect();
                let sumabs: i64 = coefs.iter().map(|c| c.abs()).sum::<i64>().max(1);
                let mode = r.below(4);
                let shift = if mode == 0 { r.below(16) } else { 1 + r.below(15) };
                let m: i64 = match mode { 0 => 1 << 12, 1 => (1 << 24) - 1, 2 => (1i64 << 24),
                    _ => { let m0 = ((1i64 << 31) - 1) / sumabs; (m0 + r.range(-2, 3)).clamp(1, 1 << 28) } };
                let mut s: Vec<i64> = (0..n).map(|_| r.range(-m, m)).collect();
                let k = r.below(n as u64) as usize; s[k] = if r.chance(1, 2) { m } else { -m };
                let stale: Vec<i64> = { let l = r.below(2 * n as u64 + 3); (0..l).map(|_| r.range(-(1 << 31), (1 << 31) - 1)).collect() };
                writeln!(out, "SCR s{} QERR {} {} {} {} {}", i, lst(&stale), lst(&coefs), shift, prec, lst(&s)).unwrap();
            }
            0 | 1 => {
                let bps = *r.pick(&[8usize, 16, 24]);
                let len = *r.pick(&[64usize, 65, 100, 128, 192, 256, 320, 512, 1024, 4096]);
                let s = sig::gen_signal(&mut r, 1, bps, len);
                let warm = r.below(5) as usize + if r.chance(1, 6) { r.below(28) as usize } else { 0 };
                let stale = |r: &mut Rng, maxlen: u64, maxv: u64| -> Vec<u64> { let l = r.below(maxlen + 1); (0..l).map(|_| r.below(maxv)).collect() };
                let se = stale(&mut r, 40, 1 << 20); let sp = stale(&mut r, 70, 40); let sm = stale(&mut r, 70, 40);
                writeln!(out, "SCR s{} RICE {} {} {} {} {} {} {}", i, lst(&se), r.below(70), lst(&sp), lst(&sm), warm, r.below(15), sig::fmt_samples(&s)).unwrap();
            }
            2 | 3 => {
                let bps = *r.pick(&[8usize, 16, 24]);
                let len = *r.pick(&[0usize, 1, 15, 16, 17, 31, 32, 33, 64, 100, 256]);
                let s = sig::gen_signal(&mut r, 1, bps, len);
                let mut st: Vec<String> = vec![];
                for _ in 0..5 { let l = *r.pick(&[0usize, 1, 16, 17, 40, 100, 300]); st.push(lst(&(0..l).map(|_| r.range(-(1 << 30), 1 << 30)).collect::<Vec<i64>>())); }
                writeln!(out, "SCR s{} PLANES {} {}", i, st.join("/"), sig::fmt_samples(&s)).unwrap();
            }
            _ => {
                let k = 3 + r.below(8);
                let a0 = *r.pick(&[0.0f32, 1.0 / 65536.0, 0.1, 0.4, 0.5, 1.0]);
                let sizes = [32usize, 64, 100, 256];
                let reqs: Vec<String> = (0..k).map(|_| {
                    let size = *r.pick(&sizes);
                    match r.below(6) { 0 => format!("r:{}", size),
                        1 | 2 => format!("{}:{}", a0.to_bits(), size),
                        3 => format!("{}:{}", (a0 + *r.pick(&[1e-6f32, 7.6e-6, 1.5e-5])).min(1.0).to_bits(), size),
                        4 => format!("{}:{}", a0.to_bits().wrapping_add(r.below(3) as u32).min(0x3F80_0000), size),
                        _ => format!("{}:{}", r.below(0x3F80_0001), size) }
                }).collect();
                writeln!(out, "SCR s{} CACHE {}", i, reqs.join(",")).unwrap();
            }
        }
    }
}

pub fn run(id: &str, rest: &str) -> String {
    let t: Vec<&str> = rest.split(' ').collect();
    match t[0] {
        "RICE" => {
            let se: Vec<u32> = pl(t[1]); let nt: usize = t[2].parse().unwrap();
            let sp: Vec<usize> = pl(t[3]); let sm: Vec<usize> = pl(t[4]);
            let (warm, maxp): (usize, usize) = (t[5].parse().unwrap(), t[6].parse().unwrap());
            let s = sig::parse_samples(t[7]);
            let (o, ps, bits, fps, fmin) = flacenc::verif::rice::find_with_stale(&se, nt, &sp, &sm, &s, warm, maxp);
            format!("{} ok {} {} {} | {} | {}", id, o, lst(&ps), bits, lst(&fps), lst(&fmin))
        }
        "PLANES" => {
            let stale: Vec<Vec<i32>> = t[1].split('/').map(|x| pl::<i32>(x)).collect();
            let s = sig::parse_samples(t[2]);
            let planes = flacenc::verif::coding::fixed_errors_with_stale(&stale, &s);
            let body: Vec<String> = planes.iter().map(|(lanes, len)| format!("{}:{}", len, lst(lanes))).collect();
            format!("{} ok {}", id, body.join(" "))
        }
        "QERR" => {
            let stale: Vec<i32> = pl(t[1]); let coefs: Vec<i16> = pl(t[2]);
            let shift: i8 = t[3].parse().unwrap(); let prec: usize = t[4].parse().unwrap();
            let s: Vec<i32> = pl(t[5]);
            let q = flacenc::verif::lpc::from_parts(&coefs, shift, prec);
            let mut errors = stale.clone();
            errors.resize(s.len(), 0i32);          // what estimated_qlpc does with the thread-local buffer
            flacenc::verif::lpc::error(&q, &s, &mut errors);
            format!("{} ok {}", id, lst(&errors))
        }
        "CACHE" => {
            let reqs: Vec<(Option<u32>, usize)> = t[1].split(',').map(|x| { let (a, s) = x.split_once(':').unwrap();
                (if a == "r" { None } else { Some(a.parse().unwrap()) }, s.parse().unwrap()) }).collect();
            let n = reqs.len();
            let fresh = std::thread::spawn(move || reqs.iter().filter(|(a, s)| flacenc::verif::lpc::window_cached(*a, *s) == flacenc::verif::lpc::window_direct(*a, *s)).count()).join().unwrap();
            format!("{} ok {}/{}", id, fresh, n)
        }
        _ => {
            let (lo, hi): (u64, u64) = (t[1].parse().unwrap(), t[2].parse().unwrap());
            let mut bad = 0u64;
            for b in lo..hi { if flacenc::verif::lpc::window_fingerprint(Some(b as u32)) != (2u64 << 56) + b { bad += 1; } }
            format!("{} ok mismatches={} n={} first={} last={} rect={}", id, bad, hi - lo,
                    flacenc::verif::lpc::window_fingerprint(Some(lo as u32)), flacenc::verif::lpc::window_fingerprint(Some((hi - 1) as u32)),
                    flacenc::verif::lpc::window_fingerprint(None))
        }
    }
}
