//! Correspondence stream CNT: count_bits vs bits written for directly constructed residuals
//! (arbitrary partition orders, parameters 0..=14, quotients up to 2^32-1) and frame headers
//! (all block-size / rate code classes, frame numbers to 2^31-1, start samples to 2^36-1).
//! Cases:  CNT <id> R <order> <block> <warmup> <params> <quot> <rem>
//!         CNT <id> H <block> <chtag> <bps> <rate> <F|S> <number>
use crate::rng::Rng;
use crate::s_sink::hex;
use flacenc::bitsink::{BitSink, Bits, MemSink};
use flacenc::component::{BitRepr, ChannelAssignment, FrameHeader, FrameOffset, Residual};
use std::fmt::Write as _;

/// A sink that only counts (quotients of 2^32-1 cannot be materialised).
pub struct CountSink(pub u64);
#[derive(Debug)]
pub struct Never;
impl std::fmt::Display for Never { fn fmt(&self, f: &mut std::fmt::Formatter<'_>) -> std::fmt::Result { write!(f, "never") } }
impl std::error::Error for Never {}
impl BitSink for CountSink {
    type Error = Never;
    fn align_to_byte(&mut self) -> Result<usize, Never> { let r = ((8 - self.0 % 8) % 8) as usize; self.0 += r as u64; Ok(r) }
    fn write_lsbs<T: Bits>(&mut self, _v: T, n: usize) -> Result<(), Never> { self.0 += n as u64; Ok(()) }
    fn write_msbs<T: Bits>(&mut self, _v: T, n: usize) -> Result<(), Never> { self.0 += n as u64; Ok(()) }
    fn write<T: Bits>(&mut self, _v: T) -> Result<(), Never> { self.0 += 8 * std::mem::size_of::<T>() as u64; Ok(()) }
    fn write_zeros(&mut self, n: usize) -> Result<(), Never> { self.0 += n as u64; Ok(()) }
}

fn list<T: std::fmt::Display>(v: &[T]) -> String { if v.is_empty() { "-".into() } else { v.iter().map(|x| x.to_string()).collect::<Vec<_>>().join(",") } }
fn parse_list<T: std::str::FromStr>(s: &str) -> Vec<T> where T::Err: std::fmt::Debug { if s == "-" { vec![] } else { s.split(',').map(|x| x.parse().unwrap()).collect() } }

pub fn gen(seed: u64, n: usize, out: &mut String) {
    let mut r = Rng::new(seed ^ 0xC47);
    for i in 0..n {
        if i % 8 == 7 {
            // a stream of StreamInfo::new plus 0..4 further metadata blocks (no frames): count_bits of the stream
            let k = r.below(5);
            let blocks: Vec<String> = (0..k).map(|_| format!("{}:{}", 1 + r.below(126), match r.below(4) { 0 => 0, 1 => 1 + r.below(4), 2 => 100 + r.below(400), _ => r.below(40) })).collect();
            writeln!(out, "CNT c{} M {} {} {} {}", i, *r.pick(&[8000usize, 44100, 96000]), 1 + r.below(8), *r.pick(&[8usize, 12, 16, 20, 24]),
                     if blocks.is_empty() { "-".to_string() } else { blocks.join(",") }).unwrap();
        } else if i % 2 == 0 {
            let order = r.below(5) as usize;
            let part = *r.pick(&[1usize, 2, 3, 16, 64, 65]);
            let block = part << order;
            let warmup = (r.below(5) as usize).min(part);
            let params: Vec<u8> = (0..(1usize << order)).map(|_| r.below(15) as u8).collect();
            let mut quot = vec![0u32; block]; let mut rem = vec![0u32; block];
            let big = r.below(4);   // how many huge quotients
            for t in warmup..block {
                let p = params[t / part];
                quot[t] = match r.below(8) { 0 => 0, 1 => 1, 2 => r.below(70) as u32, _ => r.below(9) as u32 };
                rem[t] = (r.next() as u32) & ((1u32 << p) - 1);
            }
            for _ in 0..big {
                if block > warmup {
                    let t = warmup + r.below((block - warmup) as u64) as usize;
                    quot[t] = *r.pick(&[u32::MAX, u32::MAX - 1, 1 << 31, (1 << 30) + 7, 1 << 28]);
                }
            }
            // 1 in 10: a warm-up slot that is not empty (the constructor must refuse it; if it does not, the count and the bits
            // written disagree): quotient 1, quotients whose bits leave a u32 when shifted by the first parameter, a remainder
            if warmup > 0 && r.chance(1, 10) {
                let j = r.below(warmup as u64) as usize; let p0 = params[0] as u32;
                match r.below(5) {
                    0 => quot[j] = 1,
                    1 => quot[j] = if p0 == 0 { 1 << 31 } else { 1u32 << (32 - p0) },
                    2 => quot[j] = if p0 == 0 { 3 << 30 } else { (1 + r.below(3) as u32) << (32 - p0).min(30) },
                    3 => rem[j] = 1,
                    _ => { if p0 > 0 { quot[j] = (((1u64 << 32) - (1u64 << p0)) >> p0) as u32; rem[j] = 1u32 << p0; } else { quot[j] = u32::MAX; rem[j] = 1; } }
                }
            }
            writeln!(out, "CNT c{} R {} {} {} {} {} {}", i, order, block, warmup, list(&params), list(&quot), list(&rem)).unwrap();
        } else {
            let block = match r.below(6) { 0 => *r.pick(&[192usize, 576, 1152, 2304, 4608, 256, 512, 1024, 2048, 4096, 8192, 16384]),
                1 => 1 + r.below(256) as usize, 2 => 257 + r.below(32511) as usize, 3 => 32767, 4 => 1, _ => 16 + r.below(5000) as usize };
            let chtag = r.below(11);
            let bps = *r.pick(&[8usize, 12, 16, 20, 24]);
            let rate = match r.below(5) { 0 => *r.pick(&[8000usize, 16000, 22050, 24000, 32000, 44100, 48000, 88200, 96000]),
                1 => 1000 * (1 + r.below(96) as usize), 2 => 10 * (1 + r.below(9600) as usize), 3 => 1 + r.below(65535) as usize, _ => 65536 + r.below(30465) as usize };
            // a value drawn uniformly from one length class of the UTF-8-like code (1..7 bytes)
            let class = |r: &mut Rng, top: u64| -> u64 { let lims = [0u64, 1 << 7, 1 << 11, 1 << 16, 1 << 21, 1 << 26, 1 << 31, 1 << 36];
                let k = 1 + r.below(7) as usize; let lo = lims[k - 1]; let hi = lims[k].min(top); if hi <= lo { r.below(top) } else { lo + r.below(hi - lo) } };
            let ra = if r.chance(1, 2) { class(&mut r, 1 << 31) } else { r.below(1 << 31) };
            let rb = if r.chance(1, 2) { class(&mut r, 1 << 36) } else { r.below(1 << 36) };
            let (kind, num) = if r.chance(1, 2) {
                ("F", *r.pick(&[0u64, 1, 127, 128, 2047, 2048, 65535, 65536, (1 << 21) - 1, 1 << 21, (1 << 26) - 1, 1 << 26, (1u64 << 31) - 1, ra]))
            } else {
                ("S", *r.pick(&[0u64, 127, 128, 2048, 1 << 16, 1 << 21, 1 << 26, (1 << 31) - 1, 1 << 31, (1u64 << 36) - 1, rb]))
            };
            writeln!(out, "CNT c{} H {} {} {} {} {} {}", i, block, chtag, bps, rate, kind, num).unwrap();
        }
    }
}

pub fn run(id: &str, rest: &str) -> String {
    let t: Vec<&str> = rest.split(' ').collect();
    match t[0] {
        "M" => {
            let (rate, ch, bps): (usize, usize, usize) = (t[1].parse().unwrap(), t[2].parse().unwrap(), t[3].parse().unwrap());
            let info = match flacenc::component::StreamInfo::new(rate, ch, bps) { Ok(i) => i, Err(_) => return format!("{} err", id) };
            let mut s = flacenc::component::Stream::with_stream_info(info);
            if t[4] != "-" {
                for b in t[4].split(',') {
                    let (tag, len) = b.split_once(':').unwrap(); let (tag, len): (usize, usize) = (tag.parse().unwrap(), len.parse().unwrap());
                    let data: Vec<u8> = (0..len).map(|j| ((tag * 31 + j * 7) % 256) as u8).collect();
                    match flacenc::component::MetadataBlockData::new_unknown(tag as u8, &data) { Ok(m) => s.add_metadata_block(m), Err(_) => return format!("{} err", id) }
                }
            }
            let mut a = MemSink::<u8>::new(); let mut cs = CountSink(0);
            if s.write(&mut a).is_err() || s.write(&mut cs).is_err() { return format!("{} write-err count={}", id, s.count_bits()); }
            format!("{} ok count={} written={} written64={} {} same=1", id, s.count_bits(), a.len(), cs.0, hex(a.as_slice()))
        }
        // E <ENC body>: a stream made by the encoder (single thread); count_bits against the bits a counting sink
        // receives, for every frame and for the stream.  Used by the targeted search (quotient sums around 2^32
        // reached through the encoder, which builds residuals without the constructor's checks).
        "E" => {
            let body = rest.splitn(2, ' ').nth(1).unwrap_or("");
            let mut c = crate::s_enc::parse(body);
            c.cfg.mt = false;
            match crate::s_enc::encode(&c) {
                Err(e) => format!("{} {}", id, e),
                Ok(s) => {
                    let mut lens: Vec<u64> = vec![]; let mut bad: Option<(usize, usize, u64)> = None;
                    for k in 0..s.frame_count() {
                        let f = s.frame(k).unwrap();
                        let mut cs = CountSink(0);
                        if f.write(&mut cs).is_err() { return format!("{} write-err", id); }
                        if f.count_bits() as u64 != cs.0 && bad.is_none() { bad = Some((k, f.count_bits(), cs.0)); }
                        lens.push(cs.0 / 8);
                    }
                    if let Some((k, c, w)) = bad { return format!("{} ok frame={} count={} written={} lens={}", id, k, c, w, list(&lens)); }
                    let mut cs = CountSink(0);
                    if s.write(&mut cs).is_err() { return format!("{} write-err", id); }
                    format!("{} ok count={} written={} lens={}", id, s.count_bits(), cs.0, list(&lens))
                }
            }
        }
        "R" => {
            let order: usize = t[1].parse().unwrap(); let block: usize = t[2].parse().unwrap(); let warmup: usize = t[3].parse().unwrap();
            let params: Vec<u8> = parse_list(t[4]); let quot: Vec<u32> = parse_list(t[5]); let rem: Vec<u32> = parse_list(t[6]);
            match Residual::new(order, block, warmup, &params, &quot, &rem) {
                Err(_) => format!("{} err", id),
                Ok(res) => {
                    let mut c = CountSink(0);
                    res.write(&mut c).unwrap();
                    format!("{} ok count={} written={}", id, res.count_bits(), c.0)
                }
            }
        }
        _ => {
            let block: usize = t[1].parse().unwrap(); let chtag: u8 = t[2].parse().unwrap(); let bps: usize = t[3].parse().unwrap();
            let rate: usize = t[4].parse().unwrap(); let num: u64 = t[6].parse().unwrap();
            let ch = ChannelAssignment::from_tag(chtag).unwrap();
            let off = if t[5] == "F" { FrameOffset::Frame(num as u32) } else { FrameOffset::StartSample(num) };
            match FrameHeader::new(block, ch, bps, rate, off) {
                Err(_) => format!("{} err", id),
                Ok(h) => {
                    let mut a = MemSink::<u8>::new(); let mut b = MemSink::<u64>::new();
                    let ra = h.write(&mut a); let rb = h.write(&mut b);
                    if ra.is_err() || rb.is_err() { return format!("{} write-err count={}", id, h.count_bits()); }
                    let mut ex = vec![0u8; (b.len() + 7) / 8]; b.write_to_byte_slice(&mut ex);
                    format!("{} ok count={} written={} written64={} {} same={}", id, h.count_bits(), a.len(), b.len(), hex(a.as_slice()), (a.as_slice() == &ex[..]) as u8)
                }
            }
        }
    }
}
